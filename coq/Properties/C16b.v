(* C16 (AUC is sign sensitive) — ranking by the negated scores, or swapping the roles of the two classes, gives the COMPLEMENTARY value 1 - AUC: a below-chance ranking is not
   "as good as" its mirror image, and perfectly inverted scores give 0.  Model: XV.Model.Metrics.auc_bin (pair counting, ties one half).  No axioms. *)
From Coq Require Import QArith List Bool Arith.
Require Import XV.Model.Tree XV.Model.Soft XV.Model.Labels XV.Model.Metrics XV.Proofs.MetricsProofs XV.Proofs.AucProofs.
Import ListNotations.
Local Open Scope Q_scope.

Theorem C16_auc_of_negated_scores_is_the_complement : forall pos neg : list Q, pos <> [] -> neg <> [] ->
  auc_bin (map Qopp pos) (map Qopp neg) == 1 - auc_bin pos neg.
Proof. exact auc_bin_negated_scores. Qed.
Print Assumptions C16_auc_of_negated_scores_is_the_complement.

Theorem C16_auc_with_the_classes_swapped_is_the_complement : forall pos neg : list Q, pos <> [] -> neg <> [] ->
  auc_bin neg pos == 1 - auc_bin pos neg.
Proof. exact auc_bin_swapped_classes. Qed.
Print Assumptions C16_auc_with_the_classes_swapped_is_the_complement.

Theorem C16_perfectly_inverted_scores_have_auc_zero : forall pos neg : list Q, pos <> [] -> neg <> [] ->
  (forall a b, In a pos -> In b neg -> a < b) -> auc_bin pos neg == 0.
Proof. exact auc_bin_inverted. Qed.
Print Assumptions C16_perfectly_inverted_scores_have_auc_zero.

Example C16_auc_quarter : auc_bin [1; 4] [2; 3; 5; 6] == 1 # 4 /\ auc_bin (map Qopp [1; 4]) (map Qopp [2; 3; 5; 6]) == 3 # 4.
Proof. split; [exact auc_quarter|exact auc_quarter_negated]. Qed.
