(* C19 — Adaptive bandwidth follows the median heuristic and gives scale invariance
   (partial: the composition theorem shows that a whole fit commutes with scaling once its four component operations are homogeneous;
   the components are proved for the closed forms — kernel (L2, product, Lpq), lower median, L2 gradient — while the solver is an
   arbitrary function and float effects (the absolute eps mask, 1e-30, rounding) are bounded by the harness, not eliminated).
   Models: XV.Real.Kernels (closed forms), XV.Real.Bandwidth, XV.Real.ScaleInv, XV.Real.GradScale. *)
From Coq Require Import Reals QArith List.
Require Import XV.Real.Kernels XV.Real.Grads XV.Real.Bandwidth XV.Real.ScaleInv XV.Real.GradScale.
Import ListNotations.

(* K_{cL}(c x, c z) = K_L(x, z) for every c > 0, any dimension, any transform, any exponent *)
Theorem C19_l2_kernel_scale_invariant : forall t L q c x z, (0 < c)%R -> (0 < L)%R ->
  closed_l2 t (c * L) q (vscaleR c x) (vscaleR c z) = closed_l2 t L q x z.
Proof. exact laplace_l2_scale_invariant. Qed.
Print Assumptions C19_l2_kernel_scale_invariant.
Theorem C19_product_kernel_scale_invariant : forall t L q c x z, (0 < c)%R -> (0 < L)%R ->
  closed_product t (c * L) q (vscaleR c x) (vscaleR c z) = closed_product t L q x z.
Proof. exact laplace_product_scale_invariant. Qed.
Print Assumptions C19_product_kernel_scale_invariant.
Theorem C19_lpq_kernel_scale_invariant : forall t L p q c x z, (0 < c)%R -> (0 < L)%R -> (0 < p)%R ->
  closed_lpq t (c * L) p q (vscaleR c x) (vscaleR c z) = closed_lpq t L p q x z.
Proof. exact laplace_lpq_scale_invariant. Qed.
Print Assumptions C19_lpq_kernel_scale_invariant.

(* the lower median of the rescaled distances is the rescaled lower median: with bandwidth = base * median the bandwidth of the
   rescaled problem is c * L, which is what the three theorems above need *)
Theorem C19_lower_median_homogeneous : forall (c : Q) (l : list Q), (0 < c)%Q -> l <> [] ->
  lower_median (map (Qmult c) l) = (c * lower_median l)%Q.
Proof. exact lower_median_homogeneous. Qed.
Print Assumptions C19_lower_median_homogeneous.

(* the closed-form L2 gradient is homogeneous of degree -1 (centers coincident with z or at distance >= eps before and after scaling) *)
Theorem C19_l2_gradient_homogeneous : forall t L q eps c xs cs z, (0 < c)%R -> (0 < L)%R -> (0 < eps)%R ->
  List.Forall (fun x => let d := cdist2 (transform t x) (transform t z) in d = 0%R \/ (eps <= d /\ eps <= c * d)%R) xs ->
  grad_l2 t (c * L) q eps (map (vscaleR c) xs) cs (vscaleR c z) = vscaleR (/ c) (grad_l2 t L q eps xs cs z).
Proof. exact grad_l2_homogeneous. Qed.
Print Assumptions C19_l2_gradient_homogeneous.

(* a matrix divided by its largest entry does not see a positive common factor (the 1/c^2 of the gradient outer products) *)
Theorem C19_normalised_agop_ignores_common_factor : forall (k m : R) (M : list (list R)), (0 < k)%R -> (0 < m)%R ->
  map (map (fun x => x / (k * m))%R) (map (map (Rmult k)) M) = map (map (fun x => x / m)%R) M.
Proof. exact normalise_invariant. Qed.
Print Assumptions C19_normalised_agop_ignores_common_factor.

(* composition: with homogeneous components every round of bandwidth -> solve -> AGOP gives the same coefficients and feature matrices
   on c*X as on X, bandwidths scaled by c, identical predictions; any selection rule based on validation predictions picks the same
   iterate, so the returned model predicts identically on rescaled queries.  `solve` is an arbitrary function. *)
Theorem C19_fit_commutes_with_rescaling :
  forall (Data Mat Gram Coef Query Out : Type) (scale : R -> Data -> Data) (qscale : R -> Query -> Query)
         (bw : Mat -> Data -> R) (gram : Mat -> R -> Data -> Gram) (solve : Gram -> Coef)
         (agop : Mat -> R -> Data -> Coef -> Mat) (predict : Mat -> R -> Data -> Coef -> Query -> Out) (c : R),
  (forall M X, bw M (scale c X) = c * bw M X)%R ->
  (forall M L X, gram M (c * L)%R (scale c X) = gram M L X) ->
  (forall M L X a, agop M (c * L)%R (scale c X) a = agop M L X a) ->
  (forall M L X a z, predict M (c * L)%R (scale c X) a (qscale c z) = predict M L X a z) ->
  forall M0 X (V : list Query) (select : list (list Out) -> nat) (rounds : nat) z,
  prediction Data Mat Gram Coef Query Out bw gram solve agop predict M0 (scale c X)
    (select (val_predictions Data Mat Gram Coef Query Out bw gram solve agop predict M0 (scale c X) rounds (map (qscale c) V))) (qscale c z)
  = prediction Data Mat Gram Coef Query Out bw gram solve agop predict M0 X
    (select (val_predictions Data Mat Gram Coef Query Out bw gram solve agop predict M0 X rounds V)) z.
Proof. intros. apply selected_model_invariant; assumption. Qed.
Print Assumptions C19_fit_commutes_with_rescaling.

Example C19_example : lower_median [3; 1; 4; 1; 5; 9]%Q = 3%Q /\ lower_median (map (Qmult 2) [3; 1; 4; 1; 5; 9])%Q = (2 * 3)%Q.
Proof. vm_compute. split; reflexivity. Qed.

(* ---------- the bandwidth update as the code performs it (re-translated from the source on every run: harness/bwops.py, kernelops.py) ---------- *)
Require Import XV.Real.BwOps.
(* every kernel hands _adapt_bandwidth the matrix of (kernel-norm distance)^q (checked by translation); the element-wise root undoes the power, so the
   stored bandwidth is base * median of the pairwise DISTANCES whenever that median is not below eps ... *)
Theorem C19_stored_bandwidth_is_base_times_median : forall (base q eps : R) (med : list R -> R) (ds : list R),
  (0 < q)%R -> Forall (fun d => (0 <= d)%R) ds -> (eps <= med ds)%R ->
  adapt_bandwidth base q eps med (map (fun d => pw d q) ds) = (base * med ds)%R.
Proof. exact adapt_bandwidth_is_base_times_median. Qed.
(* ... falls back to the base bandwidth for degenerate data ... *)
Theorem C19_degenerate_data_keeps_base_bandwidth : forall (base q eps : R) (med : list R -> R) (ds : list R),
  (0 < q)%R -> Forall (fun d => (0 <= d)%R) ds -> (med ds < eps)%R ->
  adapt_bandwidth base q eps med (map (fun d => pw d q) ds) = base.
Proof. exact adapt_bandwidth_degenerate. Qed.
(* ... and is homogeneous of degree one in the data: the hypothesis of the composition theorem above *)
Theorem C19_bandwidth_update_is_homogeneous : forall (base q eps : R) (med : list R -> R) (c : R) (ds : list R),
  (0 < q)%R -> (0 < c)%R -> Forall (fun d => (0 <= d)%R) ds -> med (map (Rmult c) ds) = (c * med ds)%R -> (eps <= med ds)%R -> (eps <= c * med ds)%R ->
  adapt_bandwidth base q eps med (map (fun d => pw d q) (map (Rmult c) ds)) = (c * adapt_bandwidth base q eps med (map (fun d => pw d q) ds))%R.
Proof. exact adapt_bandwidth_homogeneous. Qed.
Print Assumptions C19_stored_bandwidth_is_base_times_median.
Print Assumptions C19_bandwidth_update_is_homogeneous.

(* ---------- the composition theorem INSTANTIATED for the L2 Laplace kernel: every component concrete ---------- *)
Require Import XV.Real.ScaleInvL2.
(* Training rows X, base bandwidth, exponent q, mask threshold eps; bandwidth = base * med(pairwise distances under the current transform) with any
   positively homogeneous order statistic `med`; Gram matrix and predictor from the closed-form L2 kernel; AGOP = normalised sum of outer products of the closed-form
   (masked) L2 gradients at the training points, handed to an ARBITRARY `root` to give the next transform; coefficients from an ARBITRARY solver of the Gram matrix.
   If at every round of the unscaled fit the bandwidth and the AGOP normaliser are positive and no pairwise distance falls strictly between 0 and the mask threshold
   (for X and for cX), then after ANY number of rounds the fit on c*X has the same transforms and coefficients, bandwidths multiplied by c, and identical predictions. *)
Theorem C19_l2_fit_commutes_with_rescaling :
  forall (base q eps : R) (med : list R -> R),
  (forall c l, (0 < c)%R -> med (map (Rmult c) l) = (c * med l)%R) ->
  forall (solve : list (list R) -> list R) (root : list (list R) -> tmat) (c : R) (t0 : tmat) (X : list (list R)), (0 < c)%R -> (0 < eps)%R ->
  (forall n, (0 < base * med (pdist (featmatL2 base q eps med solve root t0 X n) X))%R) ->
  (forall n, masks eps c (featmatL2 base q eps med solve root t0 X n) X) ->
  (forall n, (0 < mmaxR (agop_raw (gradsL2 q eps (featmatL2 base q eps med solve root t0 X n) (bandwidthL2 base q eps med solve root t0 X n) X
                                           (coefsL2 base q eps med solve root t0 X n))))%R) ->
  forall n z, predictionL2 base q eps med solve root t0 (scaleX c X) n (qscale c z) = predictionL2 base q eps med solve root t0 X n z.
Proof. exact l2_fit_commutes_with_rescaling. Qed.
Print Assumptions C19_l2_fit_commutes_with_rescaling.

(* ---------- ... and INSTANTIATED for the product ('l1') and the Lpq Laplace kernels ---------- *)
Require Import XV.Real.GradAuto XV.Real.ScaleInvPQ.
(* Product kernel, exponent q > 0: bandwidth = base * med of the pairwise (sum_d |u_d|^q)^(1/q) distances; Gram matrix / predictor from the closed form; gradients = the model of
   what jacrev + wrapper return (GradAuto.grad_product, proved to be the derivative in C04); normalised AGOP; arbitrary solver and root.  The only side condition beside positivity
   of the bandwidth and of the AGOP normaliser at every round of the UNSCALED fit: the eps-mask of every pair of training points is on the same side before and after scaling. *)
Theorem C19_product_fit_commutes_with_rescaling :
  forall (base q eps : R), (0 < q)%R -> forall (med : list R -> R),
  (forall c l, (0 < c)%R -> med (map (Rmult c) l) = (c * med l)%R) ->
  forall (solve : list (list R) -> list R) (root : list (list R) -> tmat) (c : R) (t0 : tmat) (X : list (list R)), (0 < c)%R ->
  (forall n, (0 < base * med (pdist_q q (featmatP base q eps med solve root t0 X n) X))%R) ->
  (forall n, masksP q eps c (featmatP base q eps med solve root t0 X n) X) ->
  (forall n, (0 < mmaxR (agop_raw (gradsP q eps (featmatP base q eps med solve root t0 X n) (bandwidthP base q eps med solve root t0 X n) X
                                          (coefsP base q eps med solve root t0 X n))))%R) ->
  forall n z, predictionP base q eps med solve root t0 (scaleX c X) n (qscale c z) = predictionP base q eps med solve root t0 X n z.
Proof. exact product_fit_commutes_with_rescaling. Qed.
Print Assumptions C19_product_fit_commutes_with_rescaling.

Theorem C19_lpq_fit_commutes_with_rescaling :
  forall (base p q eps : R), (0 < p)%R -> forall (med : list R -> R),
  (forall c l, (0 < c)%R -> med (map (Rmult c) l) = (c * med l)%R) ->
  forall (solve : list (list R) -> list R) (root : list (list R) -> tmat) (c : R) (t0 : tmat) (X : list (list R)), (0 < c)%R ->
  (forall n, (0 < base * med (pdist_p p (featmatLpq base p q eps med solve root t0 X n) X))%R) ->
  (forall n, masksLpq p eps c (featmatLpq base p q eps med solve root t0 X n) X) ->
  (forall n, (0 < mmaxR (agop_raw (gradsLpq p q eps (featmatLpq base p q eps med solve root t0 X n) (bandwidthLpq base p q eps med solve root t0 X n) X
                                          (coefsLpq base p q eps med solve root t0 X n))))%R) ->
  forall n z, predictionLpq base p q eps med solve root t0 (scaleX c X) n (qscale c z) = predictionLpq base p q eps med solve root t0 X n z.
Proof. exact lpq_fit_commutes_with_rescaling. Qed.
Print Assumptions C19_lpq_fit_commutes_with_rescaling.

(* the autodiff gradient models are homogeneous of degree -1 wherever the eps-mask keeps its side (no other condition: zero coordinates and coincident points included) *)
Theorem C19_product_gradient_is_homogeneous : forall t (L q eps c : R) xs cs z, (0 < c)%R -> (0 < L)%R ->
  Forall (fun x => let D := sum_abs_pow q (transform t (vsubR z x)) in same_side eps D (Rpower c q * D)%R) xs ->
  grad_product t (c * L)%R q eps (map (vscaleR c) xs) cs (vscaleR c z) = vscaleR (/ c)%R (grad_product t L q eps xs cs z).
Proof. exact grad_product_homogeneous. Qed.
Theorem C19_lpq_gradient_is_homogeneous : forall t (L p q eps c : R) xs cs z, (0 < c)%R -> (0 < L)%R -> (0 < p)%R ->
  Forall (fun x => let N := normp p (transform t (vsubR z x)) in same_side eps N (c * N)%R) xs ->
  grad_lpq t (c * L)%R p q eps (map (vscaleR c) xs) cs (vscaleR c z) = vscaleR (/ c)%R (grad_lpq t L p q eps xs cs z).
Proof. exact grad_lpq_homogeneous. Qed.
