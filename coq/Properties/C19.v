(* C19 — Adaptive bandwidth follows the median heuristic and gives scale invariance
   (partial: that a whole fit commutes with scaling rests on the solver / median contracts and on float effects (eps mask, 1e-30)
   that are bounded by the harness, not eliminated).  Models: XV.Real.Kernels (closed forms), XV.Real.Bandwidth. *)
From Coq Require Import Reals QArith List.
Require Import XV.Real.Kernels XV.Real.Bandwidth.
Import ListNotations.

(* K_{cL}(c x, c z) = K_L(x, z) for every c > 0, any dimension, any transform, any exponent *)
Theorem C19_l2_kernel_scale_invariant : forall t L q c x z, (0 < c)%R -> (0 < L)%R ->
  closed_l2 t (c * L) q (vscaleR c x) (vscaleR c z) = closed_l2 t L q x z.
Proof. exact laplace_l2_scale_invariant. Qed.
Print Assumptions C19_l2_kernel_scale_invariant.
Theorem C19_product_kernel_scale_invariant : forall t L q c x z, (0 < c)%R -> (0 < L)%R ->
  closed_product t (c * L) q (vscaleR c x) (vscaleR c z) = closed_product t L q x z.
Proof. exact laplace_product_scale_invariant. Qed.
Print Assumptions C19_product_kernel_scale_invariant.
Theorem C19_lpq_kernel_scale_invariant : forall t L p q c x z, (0 < c)%R -> (0 < L)%R -> (0 < p)%R ->
  closed_lpq t (c * L) p q (vscaleR c x) (vscaleR c z) = closed_lpq t L p q x z.
Proof. exact laplace_lpq_scale_invariant. Qed.
Print Assumptions C19_lpq_kernel_scale_invariant.

(* the lower median of the rescaled distances is the rescaled lower median: with bandwidth = base * median the bandwidth of the
   rescaled problem is c * L, which is what the three theorems above need *)
Theorem C19_lower_median_homogeneous : forall (c : Q) (l : list Q), (0 < c)%Q -> l <> [] ->
  lower_median (map (Qmult c) l) = (c * lower_median l)%Q.
Proof. exact lower_median_homogeneous. Qed.
Print Assumptions C19_lower_median_homogeneous.

Example C19_example : lower_median [3; 1; 4; 1; 5; 9]%Q = 3%Q /\ lower_median (map (Qmult 2) [3; 1; 4; 1; 5; 9])%Q = (2 * 3)%Q.
Proof. vm_compute. split; reflexivity. Qed.
