(* C11 — Saving and loading state preserves predictions exactly (partial: numerics are differential).
   Model: XV.Model.AttrFlow (pattern D).  The traces are regenerated from the source on every run; the per-run obligations
   (`offenders ... = []`, `writes export = []`) are in the generated file.  Here: what those obligations imply, for every
   pair of object states. *)
From Coq Require Import List Bool Arith.
Require Import XV.Model.AttrFlow XV.Proofs.AttrFlowProofs.
Import ListNotations.

(* If the analysis accepts the prediction trace starting from the set `restored` (the attributes load_state_dict writes from keys
   that get_state_dict fills from the same attributes), then ANY two objects that agree on the constructor-only attributes and on
   the restored ones — e.g. the fitted source model and a fresh model that loaded its state — see exactly the same values in
   exactly the same order during prediction, whatever happened to either object before. *)
Theorem C11_loaded_model_reads_what_the_source_reads :
  forall (V : Type) (oracle : nat -> list V -> V * bool * nat) (mutable : nat -> bool) (pred : prog) (restored c' : list nat),
  ana mutable pred restored = Some c' ->
  forall (src loaded : store V) log k,
  (forall a, mutable a = false \/ In a restored -> src a = loaded a) ->
  s_log V (exec V oracle pred {| s_store := src; s_log := log; s_k := k |}) =
  s_log V (exec V oracle pred {| s_store := loaded; s_log := log; s_k := k |}).
Proof.
  intros V oracle mutable pred restored c' H src loaded log k Hag.
  destruct (ana_sound V oracle mutable pred restored c' H {| s_store := src; s_log := log; s_k := k |} {| s_store := loaded; s_log := log; s_k := k |})
    as (_ & B & _); [|exact B].
  split; [exact Hag|split; reflexivity].
Qed.
Print Assumptions C11_loaded_model_reads_what_the_source_reads.

(* the generated obligation is phrased with `offenders` (so that a failure names the attributes); it implies acceptance *)
Theorem C11_no_offenders_means_accepted : forall (mutable : nat -> bool) p c,
  fst (offenders mutable p c) = [] -> ana mutable p c = Some (snd (offenders mutable p c)).
Proof. exact offenders_ana. Qed.
Print Assumptions C11_no_offenders_means_accepted.

(* a trace without writes leaves every object state unchanged: exporting does not change the source model *)
Theorem C11_export_without_writes_is_pure :
  forall (V : Type) (oracle : nat -> list V -> V * bool * nat) (p : prog), writes p = [] ->
  forall s, s_store V (exec V oracle p s) = s_store V s.
Proof.
  intros V oracle. induction p as [|p IHp q IHq|a|a|l IHl r IHr|b IHb]; intros Hw s; cbn in *.
  - reflexivity.
  - apply app_eq_nil in Hw as [H1 H2]. rewrite IHq by exact H2. apply IHp. exact H1.
  - reflexivity.
  - discriminate.
  - apply app_eq_nil in Hw as [H1 H2]. destruct (oracle (s_k V s) (s_log V s)) as [[v bb] n].
    destruct bb; [rewrite IHl by exact H1|rewrite IHr by exact H2]; reflexivity.
  - destruct (oracle (s_k V s) (s_log V s)) as [[v bb] n].
    set (s' := {| s_store := s_store V s; s_log := s_log V s; s_k := S (s_k V s) |}).
    change (s_store V s) with (s_store V s'). generalize s'. clear s'. induction n as [|n IHn]; intros s'; [reflexivity|].
    simpl Nat.iter. rewrite IHb by exact Hw. apply IHn.
Qed.
Print Assumptions C11_export_without_writes_is_pure.

(* non-vacuity: an accepted and a rejected trace (attribute 0 = a tuned parameter read by prediction) *)
Example C11_example :
  let mutable := fun a => Nat.eqb a 0 in
  ana mutable (Seq (Rd 1) (Rd 0)) [0] = Some [0] /\ ana mutable (Seq (Rd 1) (Rd 0)) [] = None /\
  fst (offenders mutable (Seq (Rd 1) (Rd 0)) []) = [0].
Proof. vm_compute. repeat split; reflexivity. Qed.
