(* C10 — Temperature tuning selects a best candidate and never regresses.
   Model: XV.Model.Select.tune (xRFM.fit_temperature's candidate loop, tie rule and final assignment). *)
From Coq Require Import List Bool Arith QArith.
Require Import XV.Model.Select XV.Proofs.SelectProofs.
Import ListNotations.
Local Open Scope nat_scope.

(* For every candidate list (any length >= 1, any order, with or without 0), every score function, direction and initial
   temperature: the stored temperature is a candidate (None for <= 0), its score is optimal in the declared direction, the
   recorded best score is the score of the stored temperature, and the recorded results are the candidates' scores. *)
Theorem C10_tuning_selects_a_best_candidate :
  forall (S : Type) (init : S) (better seqb : S -> S -> bool) (T : Type) (tle0 : T -> bool) (teqb : T -> T -> bool) (tzero : T),
  (forall a, better a a = false) ->
  (forall a b c, better a b = true -> better b c = true -> better a c = true) ->
  (forall a b c, seqb a b = true -> better c b = false -> better c a = false) ->
  forall init_attr (score : option T -> S) cands, cands <> [] ->
  (forall x, better (score x) init = true) ->
  let r := tune S init better seqb T tle0 teqb tzero init_attr score cands in
  t_results S T r = map (fun c => (c, score (to_attr T tle0 c))) cands /\
  exists c, In c cands /\ t_attr S T r = to_attr T tle0 c /\ t_best S T r = score (to_attr T tle0 c) /\
            forall c', In c' cands -> better (score (to_attr T tle0 c')) (t_best S T r) = false.
Proof. exact tune_selects_best. Qed.
Print Assumptions C10_tuning_selects_a_best_candidate.

(* never worse than hard routing whenever a candidate <= 0 is present *)
Corollary C10_never_worse_than_hard_routing :
  forall (S : Type) (init : S) (better seqb : S -> S -> bool) (T : Type) (tle0 : T -> bool) (teqb : T -> T -> bool) (tzero : T),
  (forall a, better a a = false) ->
  (forall a b c, better a b = true -> better b c = true -> better a c = true) ->
  (forall a b c, seqb a b = true -> better c b = false -> better c a = false) ->
  forall init_attr (score : option T -> S) cands c0, In c0 cands -> tle0 c0 = true ->
  (forall x, better (score x) init = true) ->
  better (score None) (t_best S T (tune S init better seqb T tle0 teqb tzero init_attr score cands)) = false.
Proof.
  intros S init better seqb T tle0 teqb tzero Hi Ht Hs init_attr score cands c0 Hin H0 Hsc.
  assert (Hne : cands <> []) by (intros E; subst; destruct Hin).
  destruct (tune_selects_best S init better seqb T tle0 teqb tzero Hi Ht Hs init_attr score cands Hne Hsc)
    as (_ & c & _ & _ & _ & Hopt).
  specialize (Hopt c0 Hin). unfold to_attr in Hopt. rewrite H0 in Hopt. exact Hopt.
Qed.
Print Assumptions C10_never_worse_than_hard_routing.

(* instance: rational temperatures and scores *)
Definition qle0 (c : Q) : bool := Qle_bool c 0%Q.
Definition qtune (minimize : bool) := tune (option Q) None (q_better minimize) q_seqb Q qle0 Qeq_bool 0%Q.
Theorem C10_rational_instance : forall minimize init_attr (score : option Q -> Q) cands, cands <> [] ->
  let r := qtune minimize init_attr (fun a => Some (score a)) cands in
  exists c, In c cands /\ t_attr _ _ r = to_attr Q qle0 c /\
    t_best _ _ r = Some (score (to_attr Q qle0 c)) /\
    forall c', In c' cands -> q_better minimize (Some (score (to_attr Q qle0 c'))) (t_best _ _ r) = false.
Proof.
  intros minimize init_attr score cands Hne.
  destruct (tune_selects_best (option Q) None (q_better minimize) q_seqb Q qle0 Qeq_bool 0%Q
              (qb_irr minimize) (qb_trans minimize) (qseqb_better minimize) init_attr (fun a => Some (score a)) cands Hne
              (fun x => eq_refl)) as (_ & c & H).
  exists c. exact H.
Qed.
Print Assumptions C10_rational_instance.

(* non-vacuity + the tie rule: the choice depends on the initial temperature through ties (used by C17) *)
Example C10_example_tie_prefers_initial :
  let score := fun a : option Q => Some (match a with None => 5 | Some t => if Qeq_bool t 1 then 5 else 7 end)%Q in
  t_attr _ _ (qtune true None score [0; 1; 2]%Q) = None /\
  t_attr _ _ (qtune true (Some 1%Q) score [0; 1; 2]%Q) = Some 1%Q.
Proof. vm_compute. split; reflexivity. Qed.
