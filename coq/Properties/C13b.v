(* C13 (continued) — the executable Q model: valid probability rows for every finite input, round trips, affinity. *)
From Coq Require Import QArith List Bool Arith.
Require Import XV.Model.Tree XV.Model.Soft XV.Model.Labels XV.Proofs.LabelsProofs.
Import ListNotations.
Local Open Scope Q_scope.

(* decoding ANY finite vector (any magnitude) gives a valid probability row: right length, strictly positive entries
   (at least eps / (K (1 - eps))), summing to one *)
Theorem C13_any_vector_decodes_to_a_distribution : forall (eps : Q) (v : list Q),
  0 < eps -> eps < 1 # 2 -> v <> [] ->
  let p := normalise (map (qclamp eps (1 - eps)) v) in
  length p = length v /\ Forall (fun x => 0 < x) p /\ qsum p == 1 /\
  Forall (fun x => eps / (inject_Z (Z.of_nat (length v)) * (1 - eps)) <= x) p.
Proof. exact clamped_normalised_is_distribution. Qed.
Print Assumptions C13_any_vector_decodes_to_a_distribution.

Theorem C13_roundtrip_zero_one : forall (eps : Q) (K l : nat), 0 < eps -> eps < 1 # 2 -> (2 <= K)%nat -> (l < K)%nat ->
  labels_zero_one eps (encode_zero_one K l) = l.
Proof. exact roundtrip_zero_one. Qed.
Print Assumptions C13_roundtrip_zero_one.

(* prevalence mode with the converter's ACTUAL (float32) matrices: if they pass the checker the round trip holds *)
Theorem C13_roundtrip_prevalence : forall (eps delta : Q) (K : nat) (C invA : list (list Q)) (prior : list Q) (l : nat),
  0 < eps -> eps < 1 # 2 -> 0 <= delta -> delta < 1 # 2 -> (l < K)%nat ->
  converter_okb delta K C invA prior = true ->
  labels_prevalence eps invA (encode_prevalence C l) = l.
Proof. exact roundtrip_prevalence. Qed.
Print Assumptions C13_roundtrip_prevalence.

Theorem C13_raw_decode_affine : forall (invA : list (list Q)) (a : Q) (x y : list Q), length x = length y ->
  forall j, nth j (raw_prevalence invA (map (fun p => a * fst p + (1 - a) * snd p) (combine x y))) 0
         == a * nth j (raw_prevalence invA x) 0 + (1 - a) * nth j (raw_prevalence invA y) 0.
Proof. exact raw_decode_affine. Qed.
Print Assumptions C13_raw_decode_affine.

Theorem C13_label_is_a_class : forall v : list Q, v <> [] -> (argmax v < length v)%nat.
Proof. exact argmax_in_range. Qed.
Print Assumptions C13_label_is_a_class.

Example C13_example : labels_zero_one (1#1000) (encode_zero_one 3 2) = 2%nat /\
  Qlist_eqb (probas_zero_one (1#1000) [3#10]) [7#10; 3#10] = true.
Proof. vm_compute. split; reflexivity. Qed.
