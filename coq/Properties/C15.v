(* C15 — Categorical fast path equals dense evaluation on one-hot inputs.
   Model: XV.Real.Categorical (block decomposition of distances, one-hot rows select rows of the transformed code table),
          XV.Proofs.AgopProofs (entries of the AGOP, for the block restriction). *)
From Coq Require Import Reals QArith List Lra.
Require Import XV.Real.Kernels XV.Real.Grads XV.Real.Categorical XV.Model.Agop XV.Proofs.AgopProofs.
Import ListNotations.

(* a transform that does not mix groups acts block by block, so the squared L2 distance (resp. sum of |.|^p) of the transformed
   rows is the sum of the per-block values: numerical block + one term per categorical group, for any number of blocks *)
Theorem C15_squared_distance_is_sum_over_blocks : forall A B : list (list R), length A = length B ->
  Forall2 (fun a b => length a = length b) A B -> sumsq (vsubR (concat A) (concat B)) = blocks_sumsq A B.
Proof. exact sumsq_concat_blocks. Qed.
Print Assumptions C15_squared_distance_is_sum_over_blocks.

Theorem C15_lp_distance_is_sum_over_blocks : forall p a a' b b', length a = length a' ->
  sum_abs_pow p (vsubR (a ++ b) (a' ++ b')) = (sum_abs_pow p (vsubR a a') + sum_abs_pow p (vsubR b b'))%R.
Proof. exact sum_abs_pow_blocks. Qed.
Print Assumptions C15_lp_distance_is_sum_over_blocks.

(* for one-hot rows e_a, e_b of a group, the transformed row is the a-th transformed identity code, so the group's value
   is the table entry D_g[a, b] *)
Theorem C15_one_hot_row_selects_code : forall dout n a rows, length rows = n -> Forall (fun r => length r = dout) rows -> (a < n)%nat ->
  xmat dout (basis a n) rows = nth a rows (repeat 0%R dout).
Proof. exact xmat_basis. Qed.
Print Assumptions C15_one_hot_row_selects_code.

Theorem C15_group_distance_is_table_entry : forall dout n a b rows,
  length rows = n -> Forall (fun r => length r = dout) rows -> (a < n)%nat -> (b < n)%nat ->
  sumsq (vsubR (transform (TFull dout rows) (basis a n)) (transform (TFull dout rows) (basis b n)))
  = sumsq (vsubR (nth a rows (repeat 0%R dout)) (nth b rows (repeat 0%R dout))).
Proof. exact onehot_group_distance_is_table_entry. Qed.
Print Assumptions C15_group_distance_is_table_entry.

Theorem C15_group_lp_is_table_entry : forall p dout n a b rows,
  length rows = n -> Forall (fun r => length r = dout) rows -> (a < n)%nat -> (b < n)%nat ->
  sum_abs_pow p (vsubR (transform (TFull dout rows) (basis a n)) (transform (TFull dout rows) (basis b n)))
  = sum_abs_pow p (vsubR (nth a rows (repeat 0%R dout)) (nth b rows (repeat 0%R dout))).
Proof. exact onehot_group_lp_is_table_entry. Qed.
Print Assumptions C15_group_lp_is_table_entry.

(* block AGOP: the AGOP of the gradients restricted to a block's columns is the dense AGOP at those columns; outside the
   blocks the categorical AGOP is zero by construction (the code writes only the blocks into a zero matrix) *)
Theorem C15_block_agop_entry : forall (G : list (list Q)) (idx : list nat) (a b : nat), (a < length idx)%nat -> (b < length idx)%nat ->
  (entry (map (select_cols idx) G) a b == entry G (nth a idx O) (nth b idx O))%Q.
Proof. exact block_entry. Qed.
Print Assumptions C15_block_agop_entry.

Example C15_example : xmat 2 (basis 1 3) [[1; 2]; [3; 4]; [5; 6]]%R = [3; 4]%R.
Proof. cbn. f_equal; [lra|f_equal; lra]. Qed.
