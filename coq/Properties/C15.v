(* C15 — Categorical fast path equals dense evaluation on one-hot inputs.
   Model: XV.Real.Categorical (block decomposition of distances, one-hot rows select rows of the transformed code table),
          XV.Proofs.AgopProofs (entries of the AGOP, for the block restriction). *)
From Coq Require Import Reals QArith List Lra.
Require Import XV.Real.Kernels XV.Real.Grads XV.Real.Categorical XV.Model.Agop XV.Proofs.AgopProofs.
Import ListNotations.

(* a transform that does not mix groups acts block by block, so the squared L2 distance (resp. sum of |.|^p) of the transformed
   rows is the sum of the per-block values: numerical block + one term per categorical group, for any number of blocks *)
Theorem C15_squared_distance_is_sum_over_blocks : forall A B : list (list R), length A = length B ->
  Forall2 (fun a b => length a = length b) A B -> sumsq (vsubR (concat A) (concat B)) = blocks_sumsq A B.
Proof. exact sumsq_concat_blocks. Qed.
Print Assumptions C15_squared_distance_is_sum_over_blocks.

Theorem C15_lp_distance_is_sum_over_blocks : forall p a a' b b', length a = length a' ->
  sum_abs_pow p (vsubR (a ++ b) (a' ++ b')) = (sum_abs_pow p (vsubR a a') + sum_abs_pow p (vsubR b b'))%R.
Proof. exact sum_abs_pow_blocks. Qed.
Print Assumptions C15_lp_distance_is_sum_over_blocks.

(* for one-hot rows e_a, e_b of a group, the transformed row is the a-th transformed identity code, so the group's value
   is the table entry D_g[a, b] *)
Theorem C15_one_hot_row_selects_code : forall dout n a rows, length rows = n -> Forall (fun r => length r = dout) rows -> (a < n)%nat ->
  xmat dout (basis a n) rows = nth a rows (repeat 0%R dout).
Proof. exact xmat_basis. Qed.
Print Assumptions C15_one_hot_row_selects_code.

Theorem C15_group_distance_is_table_entry : forall dout n a b rows,
  length rows = n -> Forall (fun r => length r = dout) rows -> (a < n)%nat -> (b < n)%nat ->
  sumsq (vsubR (transform (TFull dout rows) (basis a n)) (transform (TFull dout rows) (basis b n)))
  = sumsq (vsubR (nth a rows (repeat 0%R dout)) (nth b rows (repeat 0%R dout))).
Proof. exact onehot_group_distance_is_table_entry. Qed.
Print Assumptions C15_group_distance_is_table_entry.

Theorem C15_group_lp_is_table_entry : forall p dout n a b rows,
  length rows = n -> Forall (fun r => length r = dout) rows -> (a < n)%nat -> (b < n)%nat ->
  sum_abs_pow p (vsubR (transform (TFull dout rows) (basis a n)) (transform (TFull dout rows) (basis b n)))
  = sum_abs_pow p (vsubR (nth a rows (repeat 0%R dout)) (nth b rows (repeat 0%R dout))).
Proof. exact onehot_group_lp_is_table_entry. Qed.
Print Assumptions C15_group_lp_is_table_entry.

(* block AGOP: the AGOP of the gradients restricted to a block's columns is the dense AGOP at those columns; outside the
   blocks the categorical AGOP is zero by construction (the code writes only the blocks into a zero matrix) *)
Theorem C15_block_agop_entry : forall (G : list (list Q)) (idx : list nat) (a b : nat), (a < length idx)%nat -> (b < length idx)%nat ->
  (entry (map (select_cols idx) G) a b == entry G (nth a idx O) (nth b idx O))%Q.
Proof. exact block_entry. Qed.
Print Assumptions C15_block_agop_entry.

Example C15_example : xmat 2 (basis 1 3) [[1; 2]; [3; 4]; [5; 6]]%R = [3; 4]%R.
Proof. cbn. f_equal; [lra|f_equal; lra]. Qed.

(* ---------- the fast path as the code computes it = the dense kernel on the one-hot rows (models re-translated from the source: harness/catops.py) ---------- *)
Require Import XV.Real.CatFast.
(* For ANY numerical block, any number of categorical groups with any numbers of levels, hot indices a_g / b_g, and a transform that does not mix groups
   (given block-wise: numerical block rows `nrows`, per group the rows of its block = the transformed identity codes): numerical squared distance plus the sum of
   the per-group table entries, then root / power / scaling / exp, EQUALS the library's dense L2 kernel with the block-diagonal full transform evaluated on the
   one-hot expanded rows. *)
Theorem C15_fast_l2_is_the_dense_kernel_on_onehot_rows : forall (dn : nat) (nrows : list (list R)) (L q : R) (xn zn : list R) (gs : list group),
  length xn = length nrows -> length zn = length nrows -> Forall (fun r => length r = dn) nrows -> Forall group_ok gs ->
  let blocks := (nrows, dn) :: map gblock gs in
  fast_l2 (TFull dn nrows) L q xn zn gs =
  laplace_l2 (TFull (total_dout blocks) (blockdiag blocks)) L q (xn ++ concat (map onehot_a gs)) (zn ++ concat (map onehot_b gs)).
Proof. exact fast_l2_is_dense_kernel_on_onehot_rows. Qed.
Theorem C15_fast_product_is_the_dense_kernel : forall tn L q xn zn gs, (0 < q)%R -> length (transform tn xn) = length (transform tn zn) -> Forall group_ok gs ->
  fast_product tn L q xn zn gs = laplace_product TNone L q (dense_x tn xn gs) (dense_z tn zn gs).
Proof. exact fast_product_is_dense. Qed.
Theorem C15_fast_lpq_is_the_dense_kernel : forall tn L p q xn zn gs, (0 < p)%R -> length (transform tn xn) = length (transform tn zn) -> Forall group_ok gs ->
  fast_lpq tn L p q xn zn gs = laplace_lpq TNone L p q (dense_x tn xn gs) (dense_z tn zn gs).
Proof. exact fast_lpq_is_dense. Qed.
(* the transformed one-hot expanded row IS the concatenation of the transformed numerical part and the selected code rows: block-diagonal assembly *)
Theorem C15_block_diagonal_transform_acts_blockwise : forall blocks inputs, Forall2 block_ok inputs blocks ->
  xmat (total_dout blocks) (concat inputs) (blockdiag blocks) = concat (map2 (fun x blk => xmat (snd blk) x (fst blk)) inputs blocks).
Proof. exact xmat_blockdiag. Qed.
Print Assumptions C15_fast_l2_is_the_dense_kernel_on_onehot_rows.
Print Assumptions C15_fast_product_is_the_dense_kernel.
Print Assumptions C15_fast_lpq_is_the_dense_kernel.
Print Assumptions C15_block_diagonal_transform_acts_blockwise.
