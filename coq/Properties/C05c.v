(* C05 (completed) — "Gram matrices ... are positive semi-definite for 0 < q <= p <= 2": proved for EVERY finite point set, dimension, well-formed transform,
   bandwidth and every exponent pair of the range, for all four CPU kernels (closed forms and op-sequence models).
   Proof (XV.Real.PsdGeneral2 / PsdGeneral on top of PsdLaplaceL2): Bernstein's representation of r^a (0 < a < 1) as a limit of normalised non-negative integral
   mixtures of 1 - exp(-s r) (substitution s = e^t; the constant is only shown to exist and be positive), hence psi^a is conditionally negative definite whenever psi is
   (symmetric, zero diagonal, non-negative); (a-b)^2 is cnd, so |a-b|^p, sum_d |u_d-v_d|^p, (sum_d |.|^p)^(q/p) are; Schoenberg's theorem (C05b) turns cnd into PSD;
   the sum-power kernel is a mean of 1-D PSD kernels mixed with a constant and raised to an integer power (Schur products). *)
From Coq Require Import Reals List Lra Lia.
From Coquelicot Require Import Coquelicot.
Require Import XV.Real.Kernels XV.Real.PsdProduct XV.Real.PsdMore XV.Real.PsdLaplaceL2 XV.Real.PsdGeneral2 XV.Real.PsdGeneral.
Import ListNotations.
Local Open Scope R_scope.

Theorem C05_l2_laplace_is_psd_for_every_exponent : forall t L q (xs : list (list R)) (cs : list R) (d : nat),
  0 < q <= 2 -> 0 < L -> wf_tmat t d -> List.Forall (fun x => length x = d) xs -> 0 <= qf (closed_l2 t L q) xs cs.
Proof. exact laplace_l2_psd_all_q. Qed.
Print Assumptions C05_l2_laplace_is_psd_for_every_exponent.
Theorem C05_product_laplace_is_psd_for_every_exponent : forall t L q (xs : list (list R)) (cs : list R) (d : nat),
  0 < q <= 2 -> 0 < L -> wf_tmat t d -> List.Forall (fun x => length x = d) xs -> 0 <= qf (closed_product t L q) xs cs.
Proof. exact product_psd_all_q. Qed.
Print Assumptions C05_product_laplace_is_psd_for_every_exponent.
Theorem C05_lpq_laplace_is_psd_on_the_whole_valid_range : forall t L p q (xs : list (list R)) (cs : list R) (d : nat),
  0 < q <= p -> p <= 2 -> 0 < L -> wf_tmat t d -> List.Forall (fun x => length x = d) xs -> 0 <= qf (closed_lpq t L p q) xs cs.
Proof. exact lpq_psd. Qed.
Print Assumptions C05_lpq_laplace_is_psd_on_the_whole_valid_range.
Theorem C05_sum_power_is_psd_for_every_exponent : forall t L q c (power : nat) (xs : list (list R)) (cs : list R) (d : nat),
  0 < q <= 2 -> 0 < L -> 0 <= c <= 1 -> wf_tmat t d -> List.Forall (fun x => length x = d) xs ->
  0 <= qf (closed_sum_power t L q c power) xs cs.
Proof. exact sum_power_psd_all_q. Qed.
Print Assumptions C05_sum_power_is_psd_for_every_exponent.

(* the same for the op-sequence models (what kernelops ties to the source) *)
Theorem C05_l2_laplace_as_coded_is_psd : forall t L q (xs : list (list R)) (cs : list R) (d : nat),
  0 < q <= 2 -> 0 < L -> wf_tmat t d -> List.Forall (fun x => length x = d) xs -> 0 <= qf (laplace_l2 t L q) xs cs.
Proof. exact laplace_l2_op_psd_all_q. Qed.
Theorem C05_product_laplace_as_coded_is_psd : forall t L q (xs : list (list R)) (cs : list R) (d : nat),
  0 < q <= 2 -> 0 < L -> wf_tmat t d -> List.Forall (fun x => length x = d) xs -> 0 <= qf (laplace_product t L q) xs cs.
Proof. exact laplace_product_op_psd_all_q. Qed.
Theorem C05_lpq_laplace_as_coded_is_psd : forall t L p q (xs : list (list R)) (cs : list R) (d : nat),
  0 < q <= p -> p <= 2 -> 0 < L -> wf_tmat t d -> List.Forall (fun x => length x = d) xs -> 0 <= qf (laplace_lpq t L p q) xs cs.
Proof. exact laplace_lpq_op_psd. Qed.
Theorem C05_sum_power_as_coded_is_psd : forall t L q c (power : nat) (xs : list (list R)) (cs : list R) (d : nat),
  0 < q <= 2 -> 0 < L -> 0 <= c <= 1 -> wf_tmat t d -> List.Forall (fun x => length x = d) xs ->
  0 <= qf (sum_power t L q c power) xs cs.
Proof. exact sum_power_op_psd_all_q. Qed.
Print Assumptions C05_l2_laplace_as_coded_is_psd.
Print Assumptions C05_product_laplace_as_coded_is_psd.
Print Assumptions C05_lpq_laplace_as_coded_is_psd.
Print Assumptions C05_sum_power_as_coded_is_psd.

(* the analytic core and the closure it gives *)
Theorem C05_bernstein_power : forall a, 0 < a < 1 -> exists C : R, 0 < C /\ forall r, 0 <= r ->
  is_lim_seq (fun N => / C * RInt (fun s => (1 - exp (- (s * r))) * Rpower s (- 1 - a)) (exp (- INR N)) (exp (INR N))) (pw r a).
Proof. exact bernstein_power_s_form. Qed.
Print Assumptions C05_bernstein_power.
Theorem C05_powers_of_cnd_kernels_are_cnd : forall psi P a, 0 < a <= 1 -> sym_on psi P -> (forall u, In u P -> psi u u = 0) ->
  (forall u v, In u P -> In v P -> 0 <= psi u v) -> cnd_set psi P -> cnd_set (fun u v => pw (psi u v) a) P.
Proof. exact cnd_power. Qed.
Print Assumptions C05_powers_of_cnd_kernels_are_cnd.
(* non-vacuity: PsdGeneral.laplace_l2_q_half_ex, lpq_p3half_q_half_ex, product_q3half_ex, sum_power_q_half_ex on [[1;2];[0;-3];[4;1]] with a full 3x2 transform. *)
