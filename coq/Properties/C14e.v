(* C14 (real-valued composition with C04, memory-light L2 kernel) — the matrix the code accumulates from LightLaplaceKernel's gradients IS the sum over outputs and
   training points of the outer products of the true partial derivatives of the predictor with the masked (own / coincident) centres left out, for every
   well-formed, square, symmetric feature matrix (identity, diagonal, full symmetric — e.g. the previous round's normalised AGOP), any number of outputs.
   No hypothesis on distances or coefficients.  Model / proofs: XV.Real.GradLight. *)
From Coq Require Import Reals List Lra Lia.
From Coquelicot Require Import Coquelicot.
Require Import XV.Real.Kernels XV.Real.Grads XV.Real.GradOps XV.Real.ScaleInvL2 XV.Real.AgopOfPredictor XV.Real.GradLight.
Import ListNotations.
Local Open Scope R_scope.

Theorem C14_light_feature_matrix_is_the_agop_of_the_leave_out_predictor : forall t n L q eps X (A : list (list R)) i j, 0 < eps ->
  wf_tmat t n -> square_tmat t n -> sym_tmat t n ->
  List.Forall (fun x => length x = n) X ->
  exists D : list (list R),
    length D = (length A * length X)%nat /\
    (forall o k d, (o < length A)%nat -> (k < length X)%nat -> (d < n)%nat ->
       is_derive (fun s => loo_pred_light t L q eps X (nth o A []) (nth k X []) (vaxpy s (basis d n) (nth k X []))) 0
                 (nth d (nth (o * length X + k) D []) 0)) /\
    ment (agop_raw (concat (map (fun a => grads_light t L q eps X a) A))) i j
      = fold_right Rplus 0 (map (fun g => nth i g 0 * nth j g 0) D).
Proof. exact light_feature_matrix_is_the_agop_of_the_leave_out_predictor. Qed.
Print Assumptions C14_light_feature_matrix_is_the_agop_of_the_leave_out_predictor.
