(* C16 (whole metrics) — "its declared direction is truthful: predictions identical to the targets score at least as well, in the declared direction, as any other
   predictions", stated for the metrics AS DISPATCHED (binary F1 / AUC on class 1, macro averages otherwise, Brier against one-hot rows), for every number of classes,
   label vector and prediction matrix.  Model: XV.Model.Metrics; proofs: XV.Proofs.MetricsWhole.  No axioms. *)
From Coq Require Import QArith List Bool Arith.
Require Import XV.Model.Tree XV.Model.Labels XV.Model.Metrics XV.Proofs.MetricsWhole.
Import ListNotations.

(* side m K y: F1 — every class the average runs over occurs in y; AUC — every one-vs-rest problem has a positive and a negative sample; nothing for accuracy / Brier *)
Theorem C16_direction_is_truthful_for_every_class_metric : forall m K y P, In m [Accuracy; Brier; F1; Auc] -> wf_cls K y P -> side m K y ->
  if should_maximize m then (score m y P <= score m y (perfect K y))%Q else (score m y (perfect K y) <= score m y P)%Q.
Proof. exact direction_truthful_cls. Qed.
Print Assumptions C16_direction_is_truthful_for_every_class_metric.

(* ... and only AUC needs a side condition at all: a class absent from y scores 0 whatever is predicted *)
Theorem C16_direction_is_truthful_with_minimal_side_conditions : forall m K y P, In m [Accuracy; Brier; F1; Auc] -> wf_cls K y P -> side_min m K y ->
  if should_maximize m then (score m y P <= score m y (perfect K y))%Q else (score m y (perfect K y) <= score m y P)%Q.
Proof. exact direction_truthful_cls_min. Qed.
Print Assumptions C16_direction_is_truthful_with_minimal_side_conditions.

Theorem C16_perfect_predictions_attain_the_extreme_value : forall m K y P, In m [Accuracy; Brier; F1; Auc] -> wf_cls K y P -> side m K y ->
  (score m y (perfect K y) == (if should_maximize m then 1 else 0))%Q.
Proof. exact score_perfect_value. Qed.
Print Assumptions C16_perfect_predictions_attain_the_extreme_value.

Theorem C16_direction_is_truthful_for_the_regression_metrics : forall m t p, In m [Mse; Mae] ->
  should_maximize m = false /\ (score_reg m t t == 0)%Q /\ (score_reg m t t <= score_reg m t p)%Q.
Proof. exact direction_truthful_reg. Qed.
Print Assumptions C16_direction_is_truthful_for_the_regression_metrics.

(* scikit-learn's macro average runs over the labels that occur in y_true or y_pred; it is the model's f1 whenever all classes occur in y (the regime of the
   correspondence), and its direction is truthful with no side condition *)
Theorem C16_sklearn_macro_f1_is_the_model_when_all_classes_occur : forall y P, (forall c, (c < nclasses P)%nat -> In c y) -> f1_sk y P = f1 y P.
Proof. exact f1_sk_eq_f1. Qed.
Print Assumptions C16_sklearn_macro_f1_is_the_model_when_all_classes_occur.
Theorem C16_sklearn_macro_f1_direction_is_truthful : forall K y P, wf_cls K y P -> (f1_sk y P <= f1_sk y (perfect K y))%Q.
Proof. exact f1_sk_direction. Qed.
Print Assumptions C16_sklearn_macro_f1_direction_is_truthful.

(* non-vacuity: the hypotheses hold on a 3-class instance with all classes present (MetricsWhole.wf_y3, f1_side_y3, auc_side_y3), where the four scores are
   3/5, 1/6, 13/30, 53/72 and the perfect predictions score 1, 0, 1, 1 *)
Example C16c_example : wf_cls 3 y3 P3 /\ side F1 3 y3 /\ side Auc 3 y3 /\
  (score F1 y3 P3 <= score F1 y3 (perfect 3 y3))%Q /\ (score Brier y3 (perfect 3 y3) <= score Brier y3 P3)%Q.
Proof.
  split; [exact wf_y3|]. split; [exact f1_side_y3|]. split; [exact auc_side_y3|]. split.
  - apply (direction_truthful_cls F1 3 y3 P3); [cbn; auto 6|exact wf_y3|exact f1_side_y3].
  - apply (direction_truthful_cls Brier 3 y3 P3); [cbn; auto|exact wf_y3|exact I].
Qed.
