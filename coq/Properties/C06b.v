(* C06 (continued) — which constructed trees a fitted model holds.  `fit` keeps, per requested tree, either the tree `_build_tree` returns or (n_tree_iters > 0) the one
   `_build_tree_with_iterations` selects; it stops after a single-leaf tree.  Every statement is for ALL builders, score histories and clocks.
   Model: XV.Model.TreeIter; proofs: XV.Proofs.TreeIterProofs.  Consequence for C06: whatever holds of every constructed tree (leaf sizes, halves, depth — C06.v)
   holds of every tree the fitted model holds, and the number of constructions is bounded: fitting terminates. *)
From Coq Require Import List Bool Arith.
Require Import XV.Model.TreeIter XV.Proofs.TreeIterProofs.
Import ListNotations.

(* a tree-iteration loop whose time limit runs out IS the loop with the iteration budget at which the clock ran out *)
Theorem C06_tree_iteration_time_limit_is_a_cut_budget : forall (T Sc : Type) better rebuild score tl k i st,
  ti_loop T Sc better rebuild score tl k i st = ti_run T Sc better rebuild score (ti_cut tl k i) i st.
Proof. exact ti_loop_is_cut_run. Qed.
Print Assumptions C06_tree_iteration_time_limit_is_a_cut_budget.

(* what the loop returns: the first best of the trees it built, with its own score; 1 + (completed iterations) <= 1 + n_tree_iters constructions;
   every rebuild starts from the PREVIOUS build (not from the best one) *)
Theorem C06_tree_iterations_return_a_constructed_tree : forall (T Sc : Type) better rebuild score tl n t0,
  let c := ti_cut tl n 0 in
  let B := iterates T rebuild c 0 t0 in
  let r := tree_iterations T Sc better rebuild score tl n t0 in
  ti_best T Sc r = first_best T Sc better score B t0 /\ ti_best_score T Sc r = score (ti_best T Sc r) /\
  ti_builds T Sc r = 1 + c /\ c <= n /\
  ti_scores T Sc r = map score (t0 :: B) /\
  ti_sources T Sc r = firstn c (t0 :: B).
Proof. exact tree_iterations_spec. Qed.
Print Assumptions C06_tree_iterations_return_a_constructed_tree.

Theorem C06_returned_tree_was_built : forall (T Sc : Type) better rebuild score tl n t0,
  In (ti_best T Sc (tree_iterations T Sc better rebuild score tl n t0)) (t0 :: iterates T rebuild (ti_cut tl n 0) 0 t0).
Proof. exact returned_tree_was_built. Qed.
Print Assumptions C06_returned_tree_was_built.

(* bounded, balanced leaves are inherited by the tree that is kept *)
Theorem C06_kept_tree_inherits_what_every_construction_guarantees : forall (T Sc : Type) better rebuild score tl (P : T -> Prop) n t0,
  P t0 -> (forall i prev, P (rebuild i prev)) -> P (ti_best T Sc (tree_iterations T Sc better rebuild score tl n t0)).
Proof. exact returned_tree_inherits. Qed.
Print Assumptions C06_kept_tree_inherits_what_every_construction_guarantees.

Theorem C06_tree_iterations_terminate : forall (T Sc : Type) better rebuild score tl n t0,
  ti_builds T Sc (tree_iterations T Sc better rebuild score tl n t0) <= 1 + n.
Proof. exact builds_bounded. Qed.
Print Assumptions C06_tree_iterations_terminate.

(* for a strict weak order on scores the kept tree is a best one, and the earliest such *)
Theorem C06_kept_tree_is_a_best_one : forall (T Sc : Type) (better : Sc -> Sc -> bool) (score : T -> Sc),
  (forall a, better a a = false) -> (forall a b c, better a b = true -> better b c = true -> better a c = true) ->
  (forall a b c, better a c = true -> better a b = true \/ better b c = true) ->
  forall l t0 t, In t (t0 :: l) -> better (score t) (score (first_best T Sc better score l t0)) = false.
Proof. exact first_best_optimal. Qed.
Print Assumptions C06_kept_tree_is_a_best_one.
Theorem C06_kept_tree_is_the_earliest_best : forall (T Sc : Type) (better : Sc -> Sc -> bool) (score : T -> Sc),
  (forall a, better a a = false) -> (forall a b c, better a b = true -> better b c = true -> better a c = true) ->
  (forall a b c, better a c = true -> better a b = true \/ better b c = true) ->
  forall l t0, exists l1 l2, t0 :: l = l1 ++ first_best T Sc better score l t0 :: l2 /\
                             forall t, In t l1 -> better (score (first_best T Sc better score l t0)) (score t) = true.
Proof. intros T Sc better score _ Ht Hn. exact (first_best_is_first T Sc better score Ht Hn). Qed.
Print Assumptions C06_kept_tree_is_the_earliest_best.

(* the loop over n_trees: at most n_trees trees, at least one when one is requested, they are the first m constructions in order, only the last may be a
   single leaf, the loop stops early only after a single-leaf tree or on the clock, and `has_split` says whether some held tree has a split *)
Theorem C06_forest_loop : forall (T : Type) (is_leaf : T -> bool) (build_tree : nat -> T) (ftl : nat -> bool) n, exists m,
  m <= n /\ fst (forest T is_leaf build_tree ftl n) = map build_tree (seq 0 m) /\
  snd (forest T is_leaf build_tree ftl n) = existsb (nonleaf T is_leaf) (fst (forest T is_leaf build_tree ftl n)) /\
  (forall j, S j < m -> is_leaf (build_tree j) = false) /\
  (0 < n -> 0 < m) /\
  (m < n -> (0 < m /\ is_leaf (build_tree (m - 1)) = true) \/ (0 < m /\ ftl m = true)).
Proof. exact forest_spec. Qed.
Print Assumptions C06_forest_loop.
Theorem C06_no_split_means_a_single_leaf_tree : forall (T : Type) (is_leaf : T -> bool) (build_tree : nat -> T) (ftl : nat -> bool) n,
  0 < n -> snd (forest T is_leaf build_tree ftl n) = false ->
  fst (forest T is_leaf build_tree ftl n) = [build_tree 0] /\ is_leaf (build_tree 0) = true.
Proof. exact no_split_means_single_leaf. Qed.
Print Assumptions C06_no_split_means_a_single_leaf_tree.

(* non-vacuity: a maximised score history 3, 5, 5, 4 with the clock firing at the top of iteration 3: three builds after the first are NOT all done (cut = 3 of 5),
   the kept tree is build number 1 (the first 5), every rebuild came from its predecessor *)
Example C06b_example :
  let r := tree_iterations nat nat (fun a b => Nat.ltb b a) (fun i prev => S prev) (fun t => nth t [3; 5; 5; 4; 9; 9] 0) (fun i => Nat.leb 3 i) 5 0 in
  ti_best nat nat r = 1 /\ ti_best_score nat nat r = 5 /\ ti_builds nat nat r = 4 /\ ti_scores nat nat r = [3; 5; 5; 4] /\ ti_sources nat nat r = [0; 1; 2].
Proof. vm_compute. repeat split; reflexivity. Qed.
Example C06b_forest_example :
  forest nat (fun t => Nat.eqb t 2) (fun i => i) (fun _ => false) 5 = ([0; 1; 2], true) /\
  forest nat (fun t => Nat.eqb t 0) (fun i => i) (fun _ => false) 5 = ([0], false) /\
  forest nat (fun t => false) (fun i => i) (fun i => Nat.leb 2 i) 5 = ([0; 1], true).
Proof. vm_compute. repeat split; reflexivity. Qed.
