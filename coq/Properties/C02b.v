(* C02 with the wall-clock test of the main loop (Model/SelectT.v): whatever the scores, the switches (best-restore, early stopping) AND the clock,
   the stored coefficients were solved with the stored feature matrix and bandwidth.  Only statements closed by `exact`. *)
From Coq Require Import List Bool Arith.
Require Import XV.Model.Select XV.Model.SelectT XV.Proofs.SelectProofs XV.Proofs.SelectTProofs.
Import ListNotations.

Theorem C02_timed_out_fit_keeps_coefficients_with_their_matrix_and_bandwidth :
  forall (S : Type) (init : S) (better stop : S -> S -> bool) (tl : nat -> bool),
  (forall s, stop s init = false) ->
  forall iters lbl rb es scores w m bw bi e st,
  run_t S init better stop tl iters lbl rb es scores = Out w m bw bi e st -> w_m w = m /\ w_bw w = bw.
Proof. exact run_t_state_coherent. Qed.
Print Assumptions C02_timed_out_fit_keeps_coefficients_with_their_matrix_and_bandwidth.

(* non-vacuity: the clock fires at round 1 of a 3-round fit that keeps the last iterate: two solves (round 0 and the final one), the stored
   coefficients (tag 1) were solved with matrix version 1 and bandwidth 1 *)
Example C02_timed_out_example :
  run_t nat 0 (fun a b => Nat.ltb b a) (fun _ _ => false) (fun i => Nat.leb 1 i) 3 (Some 3) false false [5; 7; 9; 4]
  = Out {| w_iter := 1; w_m := 1; w_bw := 1 |} 1 1 None 2 false.
Proof. vm_compute. reflexivity. Qed.
