(* C15 (second sentence) — "The categorical AGOP equals the dense AGOP restricted to the numerical block and to each categorical block, with zeros elsewhere."
   Model/AgopCat.v is an executable model of Kernel.get_agop_categorical (zero matrix; for the numerical index list, if non-empty, and every categorical index list:
   scatter-assign G[:, idx]^T G[:, idx] at positions (idx[a], idx[b])); catops matches the statement sequence on the current source every run and the model is run in Coq
   on the implementation's own gradients (harness/c15.py).  No axioms.  No hypothesis on the index lists is needed: whichever block writes a position writes the dense
   entry there, so order, overlaps and repeated indices cannot matter. *)
From Coq Require Import QArith List Bool Arith.
Require Import XV.Model.Agop XV.Proofs.AgopProofs XV.Model.AgopCat XV.Proofs.AgopCatProofs.
Import ListNotations.

Theorem C15_categorical_agop_is_the_block_masked_dense_agop : forall d G num cat i j, (i < d)%nat -> (j < d)%nat ->
  (ment (get_agop_categorical d G num cat) i j == (if covered (num :: cat) i j then entry G i j else 0))%Q.
Proof. exact get_agop_categorical_entry. Qed.
Print Assumptions C15_categorical_agop_is_the_block_masked_dense_agop.

Theorem C15_categorical_agop_entry : forall d G blocks i j, (i < d)%nat -> (j < d)%nat ->
  (ment (cat_agop d G blocks) i j == (if existsb (fun idx => mem i idx && mem j idx) blocks then entry G i j else 0))%Q.
Proof. exact cat_agop_entry. Qed.
Print Assumptions C15_categorical_agop_entry.

Theorem C15_categorical_agop_is_symmetric : forall d G blocks i j, (ment (cat_agop d G blocks) i j == ment (cat_agop d G blocks) j i)%Q.
Proof. exact cat_agop_symmetric. Qed.
Print Assumptions C15_categorical_agop_is_symmetric.

(* for disjoint blocks it is positive semi-definite (needed: with overlapping blocks [0;1], [1;2] the quadratic form can be negative — AgopCatProofs.cat_agop_psd_needs_disjoint_blocks) *)
Theorem C15_categorical_agop_is_psd : forall d G (x : nat -> Q) blocks, disjoint_blocks blocks -> Forall (@NoDup nat) blocks -> Forall (Forall (fun k => (k < d)%nat)) blocks ->
  (0 <= quadform d x (cat_agop d G blocks))%Q.
Proof. exact cat_agop_psd. Qed.
Print Assumptions C15_categorical_agop_is_psd.

Theorem C15_one_block_is_the_dense_agop : forall d G i j, wfv d G -> (ment (cat_agop d G [seq 0 d]) i j == ment (gram d G) i j)%Q.
Proof. exact cat_agop_is_dense_when_one_block. Qed.
Print Assumptions C15_one_block_is_the_dense_agop.

Example C15b_example :
  cat_agop 5 [[1; 2; 3; 4; 5]; [7; 11; 13; 17; 19]; [-2; 6; -10; 14; -18]]%Q [[0; 3]; [1; 4]; [2]]%nat =
  cat_agop 5 [[1; 2; 3; 4; 5]; [7; 11; 13; 17; 19]; [-2; 6; -10; 14; -18]]%Q [[3; 0]; [4; 1]; [2]]%nat.
Proof. vm_compute. reflexivity. Qed.
