(* C11 (tree part) — the exported-and-loaded tree gives prediction exactly what it read on the source, for every tree.
   Model: XV.Model.StateDict — fitted tree nodes are dicts keyed BY NAME (last binding wins), leaf models are attribute tables; `export` is get_param_tree,
   `load_root` is _build_leaf_models_from_param_trees + the centre loop of load_state_dict (with the root assertion), `view_*` is what the prediction code
   reads.  The four tables (export entries, loader assignments / setdefaults / recursion keys, centre key, prediction reads) are REGENERATED from the source on
   every run by harness/stateops.py; the generated file proves `tables_okb = true` and `reexport_okb = true` for them by vm_compute and instantiates the first
   theorem below.  Nothing here but statements closed by `exact`. *)
From Coq Require Import List String Bool Arith ZArith.
Require Import XV.Model.StateDict XV.Proofs.StateDictProofs.
Import ListNotations.

(* load(export(t)) succeeds (no KeyError, root assertion passes) and prediction reads on it what it reads on t: every node entry it looks at (with the same
   defaults), the children under the same keys, every leaf-model attribute that fitting changes, and the centres gathered from the training matrix —
   for every tree shape, every payload, every training matrix (`gather`), provided each fitted leaf's centres are the training rows its index list names
   (C07) and the export itself does not raise. *)
Theorem C11_tree_round_trip :
  forall (V : Type) (V_eqb : V -> V -> bool) (exp_leaf exp_node : etable V) (load_leaf : list (string * string)) (load_defaults : dict V)
         (load_children : list string) (centers_key : string) (gather : list nat -> pval V)
         (pred_node_keys : list (string * option (pval V))) (pred_leaf_attrs : list string),
  (forall x y : V, V_eqb x y = true -> x = y) ->
  tables_okb V V_eqb exp_leaf exp_node load_leaf load_children centers_key pred_node_keys pred_leaf_attrs = true ->
  forall (t : ftree V) (p : ptree V),
  centers_ok V gather t ->
  export V exp_leaf exp_node true t = Some p ->
  exists lt : ltree V,
    load_root V load_leaf load_defaults load_children centers_key gather p = Some lt /\
    view_l V pred_node_keys pred_leaf_attrs lt = Some (view_f V pred_node_keys pred_leaf_attrs t).
Proof. exact roundtrip_view. Qed.
Print Assumptions C11_tree_round_trip.

(* the loaded tree is a fitted tree again: same prediction view, centres still the rows its index lists name ... *)
Theorem C11_loaded_tree_is_a_fitted_tree_again :
  forall (V : Type) (V_eqb : V -> V -> bool) (exp_leaf exp_node : etable V) (load_leaf : list (string * string)) (load_defaults : dict V)
         (load_children : list string) (centers_key : string) (gather : list nat -> pval V)
         (pred_node_keys : list (string * option (pval V))) (pred_leaf_attrs : list string),
  (forall x y : V, V_eqb x y = true -> x = y) ->
  tables_okb V V_eqb exp_leaf exp_node load_leaf load_children centers_key pred_node_keys pred_leaf_attrs = true ->
  forall (t : ftree V) (b : bool) (p : ptree V) (lt : ltree V),
  centers_ok V gather t ->
  export V exp_leaf exp_node b t = Some p ->
  load V load_leaf load_defaults load_children centers_key gather p = Some lt ->
  centers_ok V gather (to_f V lt) /\
  view_f V pred_node_keys pred_leaf_attrs (to_f V lt) = view_f V pred_node_keys pred_leaf_attrs t.
Proof. exact loaded_is_fitted_again. Qed.
Print Assumptions C11_loaded_tree_is_a_fitted_tree_again.

(* ... so a load of a load predicts like the source, too *)
Theorem C11_tree_load_of_a_load :
  forall (V : Type) (V_eqb : V -> V -> bool) (exp_leaf exp_node : etable V) (load_leaf : list (string * string)) (load_defaults : dict V)
         (load_children : list string) (centers_key : string) (gather : list nat -> pval V)
         (pred_node_keys : list (string * option (pval V))) (pred_leaf_attrs : list string),
  (forall x y : V, V_eqb x y = true -> x = y) ->
  tables_okb V V_eqb exp_leaf exp_node load_leaf load_children centers_key pred_node_keys pred_leaf_attrs = true ->
  forall (t : ftree V) (p : ptree V) (lt : ltree V) (p2 : ptree V),
  centers_ok V gather t ->
  export V exp_leaf exp_node true t = Some p ->
  load_root V load_leaf load_defaults load_children centers_key gather p = Some lt ->
  export V exp_leaf exp_node true (to_f V lt) = Some p2 ->
  exists lt2 : ltree V,
    load_root V load_leaf load_defaults load_children centers_key gather p2 = Some lt2 /\
    view_l V pred_node_keys pred_leaf_attrs lt2 = Some (view_f V pred_node_keys pred_leaf_attrs t).
Proof. exact roundtrip_twice. Qed.
Print Assumptions C11_tree_load_of_a_load.

(* the hypotheses "export does not raise" are met: on every fitted tree that has the entries / attributes the export reads ... *)
Theorem C11_export_does_not_raise :
  forall (V : Type) (V_eqb : V -> V -> bool) (exp_leaf exp_node : etable V) (load_leaf : list (string * string))
         (load_children : list string) (centers_key : string) (pred_node_keys : list (string * option (pval V))) (pred_leaf_attrs : list string),
  tables_okb V V_eqb exp_leaf exp_node load_leaf load_children centers_key pred_node_keys pred_leaf_attrs = true ->
  forall (t : ftree V) (b : bool), wf_f V exp_leaf exp_node t = true -> exists p : ptree V, export V exp_leaf exp_node b t = Some p.
Proof. exact export_total. Qed.
Print Assumptions C11_export_does_not_raise.

(* ... and on every loaded tree, when everything the export reads is itself restored by the loader (`reexport_okb`, checked on the regenerated tables) *)
Theorem C11_second_export_does_not_raise :
  forall (V : Type) (V_eqb : V -> V -> bool) (exp_leaf exp_node : etable V) (load_leaf : list (string * string)) (load_defaults : dict V)
         (load_children : list string) (centers_key : string) (gather : list nat -> pval V)
         (pred_node_keys : list (string * option (pval V))) (pred_leaf_attrs : list string),
  tables_okb V V_eqb exp_leaf exp_node load_leaf load_children centers_key pred_node_keys pred_leaf_attrs = true ->
  forall (t : ftree V) (b : bool) (p : ptree V) (lt : ltree V),
  reexport_okb V exp_leaf exp_node load_leaf load_defaults = true ->
  centers_ok V gather t ->
  export V exp_leaf exp_node b t = Some p ->
  load V load_leaf load_defaults load_children centers_key gather p = Some lt ->
  exists p2 : ptree V, export V exp_leaf exp_node b (to_f V lt) = Some p2.
Proof. exact second_export_total. Qed.
Print Assumptions C11_second_export_does_not_raise.

(* non-vacuity and sharpness: the tables of the pinned source on a three-leaf tree (all hypotheses hold, the conclusion computes); a table that exports
   split_point from the wrong entry is rejected by tables_okb and the views do differ *)
Example C11_tree_example :
  tables_okb Ex.V Z.eqb Ex.exp_leaf Ex.exp_node Ex.load_leaf Ex.load_children Ex.centers_key Ex.pred_node_keys Ex.pred_leaf_attrs = true
  /\ wf_f Ex.V Ex.exp_leaf Ex.exp_node Ex.t0 = true /\ centers_ok Ex.V Ex.gather Ex.t0
  /\ (load_root Ex.V Ex.load_leaf Ex.load_defaults Ex.load_children Ex.centers_key Ex.gather Ex.p0 = Some Ex.lt0
      /\ view_l Ex.V Ex.pred_node_keys Ex.pred_leaf_attrs Ex.lt0 = Some (view_f Ex.V Ex.pred_node_keys Ex.pred_leaf_attrs Ex.t0))
  /\ tables_okb Ex.V Z.eqb Ex.exp_leaf Ex.exp_node_bad Ex.load_leaf Ex.load_children Ex.centers_key Ex.pred_node_keys Ex.pred_leaf_attrs = false.
Proof. split; [exact Ex.tables_ok|]. split; [exact Ex.t0_wf|]. split; [exact Ex.t0_centers_ok|]. split; [exact Ex.roundtrip_t0_computed|exact Ex.bad_tables_not_ok]. Qed.
