(* C12 (far rows, END TO END at model level) — "in 'prevalence' mode rows far from all training data equal the training class frequencies (up to the 1e-3 clamping of
   probabilities)": for the L2 / Lpq / product Laplace leaf predictors, any transform, any number of centres, K-1 coefficient columns, the prevalence decoder invA
   (entries bounded by B) and the clamp eps in (0, 1/2]: for every tolerance eta there is a radius r0 such that EVERY query at kernel-norm distance >= r0 from every
   centre decodes (affine decoder -> clamp to [eps, 1-eps] -> renormalise) to a row within eta of what the ZERO prediction decodes to — the clamped, renormalised
   class frequencies — and every decoded row is a probability distribution.  The real-valued decoder is the Q model of Model/Labels.v (bridge theorem), which the
   harness ties to the implementation's raw per-tree outputs.  Proofs: XV.Real.FarRowsReal over XV.Real.FarDecay. *)
From Coq Require Import Reals List Lra Lia QArith Qreals.
Require Import XV.Real.Kernels XV.Real.Grads XV.Real.FarDecay XV.Real.FarRowsReal.
Require Import XV.Model.Tree XV.Model.Soft XV.Model.Labels.
Import ListNotations.
Local Open Scope R_scope.

Theorem C12_far_rows_decode_to_the_class_frequencies_l2 : forall t L q xs (A : list (list R)) invA B eps,
  0 < L -> 0 < q -> 0 < eps <= 1 / 2 ->
  (forall i j, Rabs (nth j (nth i invA []) 0) <= B) ->
  forall eta, 0 < eta ->
  exists r0, 0 <= r0 /\
    forall z, Forall (fun x => r0 <= norm2 (transform t (vsubR x z))) xs ->
    forall i,
    Rabs (nth i (probas_prevalenceR eps invA (map (fun cs => fpred (closed_l2 t L q) xs cs z) A)) 0
          - nth i (probas_prevalenceR eps invA (repeat 0 (length A))) 0) <= eta.
Proof. exact far_rows_probabilities_tend_to_the_decoded_prior. Qed.
Print Assumptions C12_far_rows_decode_to_the_class_frequencies_l2.
Theorem C12_far_rows_decode_to_the_class_frequencies_lpq : forall t L p q xs (A : list (list R)) invA B eps,
  0 < L -> 0 < q -> 0 < eps <= 1 / 2 ->
  (forall i j, Rabs (nth j (nth i invA []) 0) <= B) ->
  forall eta, 0 < eta ->
  exists r0, 0 <= r0 /\
    forall z, Forall (fun x => r0 <= normp p (transform t (vsubR x z))) xs ->
    forall i,
    Rabs (nth i (probas_prevalenceR eps invA (map (fun cs => fpred (closed_lpq t L p q) xs cs z) A)) 0
          - nth i (probas_prevalenceR eps invA (repeat 0 (length A))) 0) <= eta.
Proof. exact far_rows_probabilities_tend_to_the_decoded_prior_lpq. Qed.
Print Assumptions C12_far_rows_decode_to_the_class_frequencies_lpq.
Theorem C12_far_rows_decode_to_the_class_frequencies_product : forall t L q xs (A : list (list R)) invA B eps,
  0 < eps <= 1 / 2 ->
  (forall i j, Rabs (nth j (nth i invA []) 0) <= B) ->
  forall eta, 0 < eta ->
  exists r0, 0 <= r0 /\
    forall z, Forall (fun x => r0 <= sum_abs_pow q (transform t (vsubR x z))) xs ->
    forall i,
    Rabs (nth i (probas_prevalenceR eps invA (map (fun cs => fpred (closed_product t L q) xs cs z) A)) 0
          - nth i (probas_prevalenceR eps invA (repeat 0 (length A))) 0) <= eta.
Proof. exact far_rows_probabilities_tend_to_the_decoded_prior_product. Qed.
Print Assumptions C12_far_rows_decode_to_the_class_frequencies_product.

(* what the zero prediction decodes to: the clamped, renormalised last column of invA (= the class frequencies, C13) *)
Theorem C12_zero_prediction_decodes_to_the_clamped_prior : forall eps invA k,
  probas_prevalenceR eps invA (repeat 0 k) = normaliseR (map (clampR eps (1 - eps)) (prior_colR k invA)).
Proof. exact probas_prevalenceR_zero_is_clamped_prior. Qed.
Print Assumptions C12_zero_prediction_decodes_to_the_clamped_prior.

Theorem C12_every_decoded_row_is_a_distribution : forall eps invA num,
  0 < eps <= 1 / 2 -> invA <> [] ->
  let p := probas_prevalenceR eps invA num in
  length p = length invA /\
  Forall (fun x => eps / (INR (length invA) * (1 - eps)) <= x <= 1) p /\
  rsumR p = 1.
Proof. exact far_rows_row_is_a_distribution. Qed.
Print Assumptions C12_every_decoded_row_is_a_distribution.

(* the real-valued decoder IS the rational model on rational inputs *)
Theorem C12_real_decoder_is_the_rational_model : forall (eps : Q) (invA : list (list Q)) (num : list Q),
  map Q2R (probas_prevalence eps invA num) = probas_prevalenceR (Q2R eps) (map (map Q2R) invA) (map Q2R num).
Proof. exact Q2R_probas_prevalence. Qed.
Print Assumptions C12_real_decoder_is_the_rational_model.
(* non-vacuity: FarRowsReal.far_rows_example / far_rows_example_concrete (K = 2, prior [1/4; 3/4], two centres: at z = (40, 0) both probabilities are within 7500 e^-20 of the prior). *)
