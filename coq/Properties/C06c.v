(* C06 (composition) — the one-tree theorems (C06.v: Split.build) composed with the theorems about which constructed trees a fitted model holds (C06b.v: TreeIter):
   for every n >= 1, leaf bound L and overlap rule, every score function, comparison, clock, n_tree_iters and n_trees, whenever the builders return what `build`
   returns on n samples, EVERY tree the fitted model holds has bounded, balanced leaves (sizes per split, leaf bound, splits only where needed), all held trees have the
   one shape `build` determines (nothing depends on projection values), with zero overlap none is deeper than ceil(log2(n/L)), at most n_trees trees are held, the whole
   fit performs at most n_trees (1 + n_tree_iters) constructions (termination), and temperature tuning is skipped exactly when the data fit into one leaf.
   Proofs: XV.Proofs.ForestBounds.  No axioms. *)
From Coq Require Import ZArith List Bool Lia Arith.
Require Import XV.Model.Split XV.Proofs.SplitProofs XV.Model.TreeIter XV.Proofs.TreeIterProofs XV.Proofs.ForestBounds.
Import ListNotations.
Open Scope Z_scope.

Theorem C06_every_held_tree_has_bounded_balanced_leaves : forall L ov n, ov_ok L ov -> 1 <= n ->
  forall (Sc : Type) (better : nat -> Sc -> Sc -> bool) (rebuild : nat -> nat -> shape -> shape) (score : nat -> shape -> Sc)
         (tl : nat -> nat -> bool) (n_tree_iters : nat) (t0 : nat -> shape) (ftl : nat -> bool) (n_trees : nat),
  (forall j, built L ov None n (t0 j)) -> (forall j i prev, built L ov None n (rebuild j i prev)) ->
  let F := fit_forest better rebuild score tl n_tree_iters t0 ftl n_trees in
  Forall (leaf_bounded L ov n) (fst F) /\
  (exists s, built L ov None n s /\ Forall (fun t => t = s) (fst F)) /\
  (length (fst F) <= n_trees)%nat /\ ((0 < n_trees)%nat -> (0 < length (fst F))%nat) /\
  (total_builds better rebuild score tl n_tree_iters t0 ftl n_trees <= n_trees * (1 + n_tree_iters))%nat /\
  ((0 < n_trees)%nat -> (snd F = false <-> n <= L)) /\
  ((0 < n_trees)%nat -> snd F = false -> fst F = [SLeaf n] /\ n <= L).
Proof. exact forest_bounds. Qed.
Print Assumptions C06_every_held_tree_has_bounded_balanced_leaves.

Theorem C06_kept_tree_depth_bound : forall L n, 1 <= L -> 1 <= n ->
  forall (Sc : Type) (better : Sc -> Sc -> bool) (rebuild : nat -> shape -> shape) (score : shape -> Sc) (tl : nat -> bool)
         (n_tree_iters : nat) (t0 : shape),
  built L (fun _ => 0) None n t0 -> (forall i prev, built L (fun _ => 0) None n (rebuild i prev)) ->
  (height (kept better rebuild score tl n_tree_iters t0) <= clog n L)%nat /\
  leaf_bounded L (fun _ => 0) n (kept better rebuild score tl n_tree_iters t0).
Proof. exact held_tree_depth_bound. Qed.
Print Assumptions C06_kept_tree_depth_bound.

Theorem C06_all_builds_have_one_shape : forall L ov quota n (Sc : Type) (better : Sc -> Sc -> bool) (rebuild : nat -> shape -> shape)
    (score : shape -> Sc) (tl : nat -> bool) (k : nat) (t0 : shape),
  built L ov quota n t0 -> (forall i prev, built L ov quota n (rebuild i prev)) ->
  (forall i prev, rebuild i prev = t0) /\
  (forall t, In t (t0 :: iterates shape rebuild (ti_cut tl k 0) 0 t0) -> t = t0) /\
  kept better rebuild score tl k t0 = t0.
Proof. exact all_builds_have_one_shape. Qed.
Print Assumptions C06_all_builds_have_one_shape.
(* non-vacuity: ForestBounds.forest_bounds_example_37_5 (n = 37, L = 5: eight leaves of 4-5 samples at depth 3 = clog 37 5; three trees with two iterations each:
   three copies of that shape, 9 constructions) and forest_bounds_example_single_leaf. *)
