(* C20 — Results do not depend on how inputs are represented (partial: thin model; equality of predictions is observed).
   Model: XV.Model.Coerce. *)
From Coq Require Import List Bool Arith.
Require Import XV.Model.Coerce.
Import ListNotations.

(* every accepted representation of the features has the same canonical form *)
Theorem C20_features_canonical : forall c1 d1 c2 d2, accepted_X c1 d1 = true -> accepted_X c2 d2 = true -> canon_X c1 d1 = canon_X c2 d2.
Proof. reflexivity. Qed.
Print Assumptions C20_features_canonical.

(* the task type depends only on the metric and on whether the target dtype is floating point — not on container, width or shape *)
Theorem C20_task_type_representation_independent : forall m d1 d2, is_float d1 = is_float d2 -> is_class m d1 = is_class m d2.
Proof. intros m d1 d2 H. destruct m; cbn; try rewrite H; reflexivity. Qed.
Print Assumptions C20_task_type_representation_independent.

(* the canonical target format does not depend on container, float width, integer width, or (n,) vs (n,1) *)
Theorem C20_targets_canonical : forall m e K c1 d1 s1 c2 d2 s2,
  is_float d1 = is_float d2 ->
  (s1 = Flat \/ s1 = Column) -> (s2 = Flat \/ s2 = Column) ->
  canon_y m e K c1 d1 s1 = canon_y m e K c2 d2 s2.
Proof.
  intros m e K c1 d1 s1 c2 d2 s2 Hf [-> | ->] [-> | ->]; unfold canon_y;
    rewrite (C20_task_type_representation_independent m d1 d2 Hf), Hf; reflexivity.
Qed.
Print Assumptions C20_targets_canonical.

Example C20_example :
  canon_y NoMetric Prevalence 4 Array I8 Flat = (F32, 3) /\ canon_y NoMetric Prevalence 4 Tensor I64 Column = (F32, 3) /\
  canon_y NoMetric ZeroOne 2 Array F64 Flat = (F32, 1) /\ predict_format (is_class NoMetric U8) 1 = OutLabels.
Proof. repeat split; reflexivity. Qed.
