(* C16 — Tuning metrics are correct and their optimisation direction is truthful.
   Model: XV.Model.Metrics (textbook definitions over Q), XV.Real.MetricsReal (sqrt / ln steps). *)
From Coq Require Import QArith Reals List Bool Arith.
Require Import XV.Model.Tree XV.Model.Labels XV.Model.Metrics XV.Proofs.MetricsProofs XV.Real.MetricsReal.
Import ListNotations.

(* losses (minimised): always >= 0, and perfect predictions attain 0 *)
Theorem C16_mse : forall t p, (0 <= mse t p)%Q /\ (mse t t == 0)%Q.
Proof. intros; split; [apply mse_nonneg|apply mse_perfect]. Qed.
Print Assumptions C16_mse.
Theorem C16_mae : forall t p, (0 <= mae t p)%Q /\ (mae t t == 0)%Q.
Proof. intros; split; [apply mae_nonneg|apply mae_perfect]. Qed.
Print Assumptions C16_mae.
Theorem C16_brier : forall y P, (0 <= brier y P)%Q.
Proof. exact brier_nonneg. Qed.
Print Assumptions C16_brier.
Theorem C16_rmse : forall m : R, (0 <= m)%R -> (0 <= sqrt m)%R /\ (m = 0%R -> sqrt m = 0%R) /\ forall m', (m <= m')%R -> (sqrt m <= sqrt m')%R.
Proof. exact rmse_facts. Qed.
Print Assumptions C16_rmse.
Theorem C16_logloss : forall ps : list R, ps <> [] -> Forall (fun p => (0 < p <= 1)%R) ps -> (0 <= logloss ps)%R.
Proof. exact logloss_nonneg. Qed.
Print Assumptions C16_logloss.
Theorem C16_logloss_perfect : forall ps : list R, Forall (fun p => p = 1%R) ps -> logloss ps = 0%R.
Proof. exact logloss_perfect. Qed.
Print Assumptions C16_logloss_perfect.

(* scores (maximised): always <= 1, and perfect predictions attain 1 *)
Theorem C16_accuracy : forall y P, P <> [] -> (0 <= accuracy y P <= 1)%Q /\ (map argmax P = y -> accuracy y P == 1)%Q.
Proof. intros y P H; split; [apply accuracy_range; exact H|apply accuracy_perfect; exact H]. Qed.
Print Assumptions C16_accuracy.
Theorem C16_f1 : forall c y yhat, (0 <= f1_class c y yhat <= 1)%Q /\ (In c y -> f1_class c y y == 1)%Q.
Proof. intros; split; [apply f1_class_range|apply f1_class_perfect]. Qed.
Print Assumptions C16_f1.
Theorem C16_auc : forall pos neg, pos <> [] -> neg <> [] ->
  (0 <= auc_bin pos neg <= 1)%Q /\ ((forall a b, In a pos -> In b neg -> (b < a)%Q) -> auc_bin pos neg == 1)%Q.
Proof. intros pos neg Hp Hn; split; [apply auc_bin_range; assumption|apply auc_bin_perfect; assumption]. Qed.
Print Assumptions C16_auc.

(* the declared directions agree with the facts above (finite table; compared exhaustively with the code by the harness) *)
Theorem C16_directions :
  map should_maximize [Mse; Rmse; Mae; Brier; Logloss] = [false; false; false; false; false] /\
  map should_maximize [Accuracy; F1; Auc] = [true; true; true].
Proof. split; reflexivity. Qed.

Example C16_example :
  (accuracy [1; 0; 1]%nat [[1#4; 3#4]; [2#3; 1#3]; [9#10; 1#10]] == 2#3)%Q /\
  (auc_bin [3#4; 1#2] [1#2; 1#4] == 7#8)%Q /\ (f1_class 1 [1; 0; 1; 1]%nat [1; 1; 0; 1]%nat == 2#3)%Q.
Proof. vm_compute. repeat split; reflexivity. Qed.
