(* C13 — Label encoding round-trips and decodes to valid probabilities.
   Models: XV.Real.Simplex (MathComp: the algebra of the prevalence codes over any ordered field),
           XV.Model.Labels (executable Q model of encode / decode / argmax, and the checker for the converter's actual matrices). *)
Set Warnings "-notation-overridden,-ambiguous-paths".
From mathcomp Require Import all_ssreflect all_algebra.
Require Import XV.Real.Simplex.
Import GRing.Theory.
Local Open Scope ring_scope.

(* ---- the algebra, for EVERY number of classes K = n+1 >= 1... , every prior (zeros allowed), every Q meeting the QR contract ---- *)
Theorem C13_code_matrix_invertible : forall (F : numFieldType) (n : nat) (Q : 'M[F]_(n + 1, n)),
  Q^T *m Q = 1%:M -> (const_mx 1 : 'rV[F]_(n + 1)) *m Q = 0 -> forall prior : 'rV[F]_(n + 1), A Q prior \in unitmx.
Proof. exact: A_unit. Qed.
Print Assumptions C13_code_matrix_invertible.

Theorem C13_codes_decode_to_unit_vectors : forall (F : numFieldType) (n : nat) (Q : 'M[F]_(n + 1, n)),
  Q^T *m Q = 1%:M -> (const_mx 1 : 'rV[F]_(n + 1)) *m Q = 0 -> forall (prior : 'rV[F]_(n + 1)) (i : 'I_(n + 1)),
  decode Q prior (row i (C Q prior)) = delta_mx 0 i.
Proof. exact: decode_code. Qed.
Print Assumptions C13_codes_decode_to_unit_vectors.

Theorem C13_zero_decodes_to_prior : forall (F : numFieldType) (n : nat) (Q : 'M[F]_(n + 1, n)),
  Q^T *m Q = 1%:M -> (const_mx 1 : 'rV[F]_(n + 1)) *m Q = 0 -> forall prior : 'rV[F]_(n + 1),
  prior *m (const_mx 1 : 'cV[F]_(n + 1)) = 1%:M -> decode Q prior 0 = prior.
Proof. exact: decode_zero. Qed.
Print Assumptions C13_zero_decodes_to_prior.

Theorem C13_codes_equidistant : forall (F : numFieldType) (n : nat) (Q : 'M[F]_(n + 1, n)),
  Q^T *m Q = 1%:M -> (const_mx 1 : 'rV[F]_(n + 1)) *m Q = 0 -> forall (prior : 'rV[F]_(n + 1)) (i j : 'I_(n + 1)), i != j ->
  (row i (C Q prior) - row j (C Q prior)) *m (row i (C Q prior) - row j (C Q prior))^T = (2%:R)%:M.
Proof. exact: codes_equidistant. Qed.
Print Assumptions C13_codes_equidistant.

Theorem C13_decoding_is_affine : forall (F : numFieldType) (n : nat) (Q : 'M[F]_(n + 1, n)) (prior : 'rV[F]_(n + 1)) (a : F) (x y : 'rV[F]_n),
  decode Q prior (a *: x + (1 - a) *: y) = a *: decode Q prior x + (1 - a) *: decode Q prior y.
Proof. exact: decode_affine. Qed.
Print Assumptions C13_decoding_is_affine.

(* the hypotheses are satisfiable: an explicit rational instance with 4 classes *)
Theorem C13_rational_instance_K4 : forall i : 'I_(3 + 1),
  decode Q4 prior4 (row i (C Q4 prior4)) = delta_mx 0 i /\ decode Q4 prior4 0 = prior4.
Proof. move=> i; exact: (simplex_instance i i). Qed.
Print Assumptions C13_rational_instance_K4.
