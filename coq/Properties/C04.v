(* C04 — Function gradients are the true gradients of the kernel predictor (partial: autodiff kernels are a PyTorch contract;
   their values are checked numerically against high-precision derivatives of the documented closed forms).
   Model: XV.Real.Grads. *)
From Coq Require Import Reals List Lra.
From Coquelicot Require Import Coquelicot.
Require Import XV.Real.Kernels XV.Real.Grads.
Import ListNotations.
Local Open Scope R_scope.

(* the predictor along a coordinate line of the INPUT space is, in transformed space, the sum of radial profiles along a line *)
Theorem C04_predictor_along_a_line : forall t L q xs cs z e, wf_tmat t (length z) -> length e = length z ->
  List.Forall (fun x => length x = length z) xs ->
  forall s, fpred (closed_l2 t L q) xs cs (vaxpy s e z) = falong L q (map (fun x => transform t (vsubR z x)) xs) cs (transform t e) s.
Proof. exact predictor_along_line. Qed.
Print Assumptions C04_predictor_along_a_line.

(* Closed-form L2 gradient (with the zero-distance mask, followed by the multiplication with the transform): for ANY number of
   centers, any dimension, any coefficients, any transform used symmetrically in coordinate d, and any query point at distance
   >= eps from every center, coordinate d of what the code returns is the derivative of the predictor in direction e_d. *)
Theorem C04_l2_gradient_is_the_derivative : forall t L q eps xs cs z d w, 0 < eps ->
  wf_tmat t (length z) -> List.Forall (fun x => length x = length z) xs ->
  List.Forall (fun x => eps <= cdist2 (transform t x) (transform t z)) xs ->
  List.Forall (fun x => length (transform t x) = length (transform t z)) xs ->
  List.Forall (fun x => length (transform t (vsubR z x)) = length w) xs ->
  sym_at t d w (length (transform t z)) ->
  is_derive (falong L q (map (fun x => transform t (vsubR z x)) xs) cs w) 0 (nth d (grad_l2 t L q eps xs cs z) 0).
Proof. exact grad_l2_is_derivative. Qed.
Print Assumptions C04_l2_gradient_is_the_derivative.

(* the symmetry hypothesis holds for the identity and for every diagonal transform (w = T e_d); for a full matrix it is
   exactly symmetry of the matrix, which the harness checks on every sqrtM / M the code feeds *)
Theorem C04_identity_transform_is_symmetric : forall d n, sym_at TNone d (transform TNone (basis d n)) n.
Proof. exact sym_at_none. Qed.
Theorem C04_diagonal_transform_is_symmetric : forall m d, sym_at (TDiag m) d (transform (TDiag m) (basis d (length m))) (length m).
Proof. exact sym_at_diag. Qed.
Print Assumptions C04_diagonal_transform_is_symmetric.

(* at a coincident center that center's own term is exactly zero (and finite) *)
Theorem C04_coincident_center_contributes_zero : forall L q eps, 0 < eps -> gweight L q eps 0 = 0.
Proof. exact gweight_coincident. Qed.
Print Assumptions C04_coincident_center_contributes_zero.

(* the one-dimensional calculus fact everything rests on *)
Theorem C04_radial_profile_derivative : forall a b c gam q s, 0 < a + b * s + c * s * s ->
  is_derive (kline a b c gam q) s
    (- gam * q * kline a b c gam q s * exp ((q - 2) * ln (sqrt (a + b * s + c * s * s))) * ((b + 2 * c * s) / 2)).
Proof. exact kline_derive. Qed.
Print Assumptions C04_radial_profile_derivative.

Example C04_example : gweight 2 1 (1/10) 0 = 0 /\ basis 1 3 = [0; 1; 0].
Proof. split; [apply gweight_coincident; lra|reflexivity]. Qed.

(* ---------- the autodiff kernels: what is handed to torch.func.jacrev ---------- *)
Require Import XV.Real.GradOps.
(* The closures of the product / Lpq / sum-power kernels (re-translated from the source on every run, harness/gradops.py) compute, for every
   center and query point whose eps-mask is open, exactly the documented kernel of C05; where the mask is closed they are constant (so the
   center's own term has zero gradient).  jacrev's result is therefore the gradient of the documented predictor — the PyTorch contract that
   jacrev returns the Jacobian is checked numerically per instance. *)
Theorem C04_product_closure_is_the_documented_kernel : forall t L q eps x z, 0 < L -> 0 < q -> length x = length z -> wf_tmat t (length x) ->
  eps <= sum_abs_pow q (transform t (vsubR x z)) -> fwd_product t L q eps x z = closed_product t L q x z.
Proof. exact fwd_product_open. Qed.
Theorem C04_product_closure_masked_is_constant : forall t L q eps x z, 0 < q ->
  sum_abs_pow q (vsubR (transform t x) (transform t z)) < eps -> fwd_product t L q eps x z = 1.
Proof. exact fwd_product_masked. Qed.
Theorem C04_lpq_closure_is_the_documented_kernel : forall t L p q eps x z, 0 < L -> 0 < eps -> length x = length z -> wf_tmat t (length x) ->
  eps <= normp p (transform t (vsubR x z)) -> fwd_lpq t L p q eps x z = closed_lpq t L p q x z.
Proof. exact fwd_lpq_open. Qed.
Theorem C04_lpq_closure_masked_is_constant : forall t L p q eps x z,
  cdistp p (transform t x) (transform t z) < eps -> fwd_lpq t L p q eps x z = 1.
Proof. exact fwd_lpq_masked. Qed.
(* the sum-power closure masks every coordinate with |u| < eps before the power is taken: it is the documented kernel when every coordinate of the
   transformed difference is 0 or at least eps in absolute value *)
Theorem C04_sum_power_closure_is_the_documented_kernel : forall t L q c eps power x z, length x = length z -> wf_tmat t (length x) ->
  length (transform t x) = length (transform t z) -> length (transform t x) = length x ->
  List.Forall (fun u => u = 0 \/ eps <= Rabs u) (vsubR (transform t x) (transform t z)) ->
  fwd_sum_power t L q c eps power x z = closed_sum_power t L q c power x z.
Proof. exact fwd_sum_power_closed. Qed.
Theorem C04_sum_power_closure_masked_coordinate_is_constant : forall L q eps u, Rabs u < eps ->
  exp (- 1 / Rpower L q * (if Rle_dec eps (Rabs u) then pw (Rmax (Rabs u) eps) q else 0)) = 1.
Proof. exact fwd_sum_power_masked_coordinate. Qed.
Print Assumptions C04_product_closure_is_the_documented_kernel.
Print Assumptions C04_lpq_closure_is_the_documented_kernel.
Print Assumptions C04_sum_power_closure_is_the_documented_kernel.

(* the closed-form gradients as the generic einsum-pair sum the translator targets *)
Theorem C04_l2_gradient_as_einsum_pair : forall t L q eps xs cs z, grad_l2 t L q eps xs cs z =
  transform t (gsum_w (fun x => gweight L q eps (cdist2 (transform t x) (transform t z))) (transform t) (transform t z) xs cs).
Proof. exact grad_l2_as_gsum_w. Qed.
Print Assumptions C04_l2_gradient_as_einsum_pair.

(* ---------- the autodiff kernels: the derivative theorems ---------- *)
Require Import XV.Real.GradsP XV.Real.GradAuto.
(* Model of what the code returns (GradAuto): jacrev yields, per transformed coordinate, sum_i c_i d/dzm_e fwd(x_i, zm) with the eps-mask treated as a
   constant; the generic wrapper multiplies that row by the transform.  For every number of centers, every dimension, every transform that is used
   symmetrically in coordinate d, and every query point in general position (no coordinate of a transformed difference vanishes, masks open), coordinate d
   of the model IS the derivative of the documented predictor along e.  (That jacrev returns these partial derivatives is PyTorch's contract; the harness
   compares its numbers with this model by `interval` and with mpmath.) *)
Theorem C04_product_gradient_is_the_derivative : forall t L q eps xs cs z d e,
  wf_tmat t (length z) -> length e = length z -> List.Forall (fun x => length x = length z) xs ->
  sym_at t d (transform t e) (length (transform t z)) ->
  List.Forall (fun x => eps <= sum_abs_pow q (transform t (vsubR z x))) xs ->
  List.Forall (fun x => nz (transform t (vsubR z x))) xs ->
  is_derive (fun s => fpred (closed_product t L q) xs cs (vaxpy s e z)) 0 (nth d (grad_product t L q eps xs cs z) 0).
Proof. exact grad_product_is_derivative. Qed.
Theorem C04_lpq_gradient_is_the_derivative : forall t L p q eps xs cs z d e,
  wf_tmat t (length z) -> length e = length z -> List.Forall (fun x => length x = length z) xs ->
  sym_at t d (transform t e) (length (transform t z)) ->
  List.Forall (fun x => eps <= normp p (transform t (vsubR z x))) xs ->
  List.Forall (fun x => nz (transform t (vsubR z x))) xs ->
  is_derive (fun s => fpred (closed_lpq t L p q) xs cs (vaxpy s e z)) 0 (nth d (grad_lpq t L p q eps xs cs z) 0).
Proof. exact grad_lpq_is_derivative. Qed.
Theorem C04_sum_power_gradient_is_the_derivative : forall t L q c eps power xs cs z d e,
  wf_tmat t (length z) -> length e = length z -> List.Forall (fun x => length x = length z) xs ->
  sym_at t d (transform t e) (length (transform t z)) ->
  List.Forall (fun x => List.Forall (fun a => eps <= Rabs a) (transform t (vsubR z x))) xs ->
  List.Forall (fun x => nz (transform t (vsubR z x))) xs ->
  is_derive (fun s => fpred (closed_sum_power t L q c power) xs cs (vaxpy s e z)) 0 (nth d (grad_sum_power t L q c eps power xs cs z) 0).
Proof. exact grad_sum_power_is_derivative. Qed.
(* a coordinate in which every centre is closer than eps to the query (in particular: coincides with it) contributes 0, a finite number, to the
   sum-power model gradient, for every exponent (also q < 1, where the unmasked closure has an infinite one-sided slope at 0) *)
Theorem C04_sum_power_masked_coordinate_contributes_zero : forall L q c eps power m us cs e,
  List.Forall (fun u => Rabs (nth e u 0) < eps) us ->
  nth e (gauto (dsp_m L q c eps power) m us cs) 0 = 0.
Proof. exact sum_power_masked_coordinate_contributes_zero. Qed.
Print Assumptions C04_sum_power_masked_coordinate_contributes_zero.
Print Assumptions C04_product_gradient_is_the_derivative.
Print Assumptions C04_lpq_gradient_is_the_derivative.
Print Assumptions C04_sum_power_gradient_is_the_derivative.
(* for exponents above one the general-position hypothesis is not needed (|a|^q is differentiable at 0) *)
Theorem C04_product_kernel_smooth_for_q_gt_1 : forall L q u w, 1 < q -> length u = length w -> is_derive (kprod_along L q u w) 0 (dprod L q u w).
Proof. exact kprod_along_derive_q_gt_1. Qed.
(* and at exponent one it genuinely is: |s| has no derivative at 0 *)
Theorem C04_abs_not_differentiable_at_zero : forall l, ~ is_derive (fun s => pw (Rabs (0 + s * 1)) 1) 0 l.
Proof. exact abs_pow_not_derivable_q1. Qed.
(* a center whose mask is closed (the query coincides with it) contributes the zero vector *)
Theorem C04_masked_center_contributes_zero : forall L q eps m u us c cs, sum_abs_pow q u < eps ->
  gauto (dprod_m L q eps) m (u :: us) (c :: cs) = gauto (dprod_m L q eps) m us cs.
Proof. exact gauto_product_closed_center. Qed.
Print Assumptions C04_masked_center_contributes_zero.
