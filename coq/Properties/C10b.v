(* C10 (the tuning gate) — `fit` runs `fit_temperature` only when some built tree has a split (`has_split`, modelled by TreeIter.forest, C06b).  Skipping it loses
   nothing: when has_split is false the model holds exactly one single-leaf tree (C06b), on which the coded soft-routing weights are [1] for EVERY temperature, so soft
   = hard = the leaf's output, every candidate of any tuning space gives the same prediction on every row and therefore the same score under any metric: whatever
   temperature is stored is optimal among the candidates and not worse than hard routing.  Conversely one split is enough for two temperatures to differ.
   Proofs: XV.Real.TuneGate (over SoftEnd's end-to-end soft prediction and TreeIterProofs). *)
From Coq Require Import Reals List Lra Lia Bool QArith Qreals.
Require Import XV.Model.Tree XV.Model.Soft XV.Model.TreeIter XV.Model.Select.
Require Import XV.Proofs.TreeIterProofs XV.Proofs.SelectProofs.
Require Import XV.Real.SoftReal XV.Real.Kernels XV.Real.SoftOps XV.Real.SoftEnd XV.Real.TuneGate.
Import ListNotations.
Local Open Scope R_scope.

Theorem C10_single_leaf_soft_routing_is_hard_routing : forall (L : Type) (tiny : R) (z : nat -> R) (m : L) (act : list bool) (f : L -> row -> R) (x : row),
  tiny <= 1 ->
  active_ok (tree_weights tiny z (Leaf m)) act ->
  tree_lps z (Leaf m) = [0] /\ Rmax (-50) 0 = 0 /\
  tree_weights tiny z (Leaf m) = [1] /\
  act = [true] /\
  trunc_out (tree_weights tiny z (Leaf m)) act = [1] /\
  soft_tree_pred tiny z (Leaf m) act f x = f m x /\
  soft_tree_pred tiny z (Leaf m) act f x = hard_tree_pred f (Leaf m) x.
Proof. exact single_leaf_soft_is_hard. Qed.
Print Assumptions C10_single_leaf_soft_routing_is_hard_routing.

Theorem C10_skipping_the_tuning_is_sound : forall (L Temp : Type) (build_tree : nat -> tree L) (ftl : nat -> bool) (n : nat)
    (tiny : R) (f : L -> row -> R) (zt : Temp -> row -> nat -> nat -> R) (actt : Temp -> row -> nat -> list bool),
  (0 < n)%nat -> tiny <= 1 ->
  snd (forest (tree L) is_leaf_tree build_tree ftl n) = false ->
  let Ts := fst (forest (tree L) is_leaf_tree build_tree ftl n) in
  (forall t x, admissible tiny Ts (zt t x) (actt t x)) ->
  forall (S : Type) (metric : list R -> S) (Xval : list row) (stored c : option Temp),
    metric (map (model_pred tiny f zt actt Ts c) Xval) = metric (map (model_pred tiny f zt actt Ts stored) Xval).
Proof. exact skipping_tuning_is_sound_on_rows. Qed.
Print Assumptions C10_skipping_the_tuning_is_sound.

Theorem C10_single_leaf_ensembles_ignore_the_temperature : forall (L : Type) (tiny : R) (z : nat -> nat -> R) (act : nat -> list bool)
    (f : L -> row -> R) (Ts : list (tree L)) (x : row),
  tiny <= 1 ->
  Forall (fun T => is_leaf_tree T = true) Ts ->
  admissible tiny Ts z act ->
  soft_tree_preds tiny z act f Ts x = map (fun T => hard_tree_pred f T x) Ts /\
  soft_forest_pred tiny z act f Ts x = hard_forest_pred f Ts x.
Proof. exact single_leaf_forest_prediction_ignores_temperature. Qed.
Print Assumptions C10_single_leaf_ensembles_ignore_the_temperature.
(* conversely: TuneGate.tuning_matters_as_soon_as_one_tree_splits (depth-1 tree, temperatures 1 and 1/2: 1/(1+e^-1) < 1/(1+e^-2) < 1 = hard). *)
