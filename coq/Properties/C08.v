(* C08 — Prediction-time routing agrees with training-time assignment.
   Model: XV.Model.Rank (relational: what the real sort/median produced, slack e for float rounding). *)
From Coq Require Import QArith List Bool ZArith.
Require Import XV.Model.Split XV.Model.Tree XV.Model.Rank XV.Proofs.RankProofs.
Import ListNotations.

(* one node, any size (odd or even), any overlap, any tie order: if the children are the rank halves of some sort of the
   projections and the threshold is their lower median, then a sample sent right only is not below the threshold and a
   sample sent left only is not above it (beyond the slack) *)
Theorem C08_rank_split_agrees_with_lower_median_threshold :
  forall e b lu ov ru, 0 <= e -> rank_split_okb e b lu ov ru = true ->
  (forall p, In p ru -> ~ p + 2 * e < b) /\ (forall p, In p lu -> ~ b + 2 * e < p).
Proof. exact rank_vs_threshold. Qed.
Print Assumptions C08_rank_split_agrees_with_lower_median_threshold.

(* whole tree, any depth: a training sample that is not within the slack of a threshold on its route is routed by
   `<= goes left` to a leaf that received it *)
Theorem C08_training_samples_route_to_their_leaf :
  forall (X : nat -> list Q) e, 0 <= e -> forall t i,
  tokb X e t = true -> In i (tids t) -> untied e t (X i) -> In i (route (erase t) (X i)).
Proof. exact routing_agrees. Qed.
Print Assumptions C08_training_samples_route_to_their_leaf.

Theorem C08_untied_decidable : forall e t x, untiedb e t x = true -> untied e t x.
Proof. exact untiedb_sound. Qed.
Print Assumptions C08_untied_decidable.

(* the relation is inhabited by the reference behaviour: slicing ANY ascending arrangement of the projections by the code's
   rank counts, with the element of rank (m-1)/2 as threshold, is accepted with zero slack — for every size and overlap *)
Theorem C08_sort_and_slice_is_accepted :
  forall (s : list Q) (o : Z), asc s -> (0 <= o <= Z.of_nat (length s))%Z -> s <> [] ->
  rank_split_okb 0 (model_median s) (model_lu s o) (model_ov s o) (model_ru s o) = true.
Proof. exact model_split_accepted. Qed.
Print Assumptions C08_sort_and_slice_is_accepted.

(* non-vacuity: 5 samples (odd), projections 1 2 2 3 5, median 2: sorted ranks -> left 3, right 2 *)
Example C08_example_odd : rank_split_okb 0 2 [1; 2; 2] [] [3; 5] = true.
Proof. vm_compute. reflexivity. Qed.
Example C08_example_even_overlap : rank_split_okb 0 2 [1; 2] [2; 3] [4; 5] = true.
Proof. vm_compute. reflexivity. Qed.
Example C08_example_tree :
  let X := fun i : nat => [inject_Z (Z.of_nat i)] in
  let t := TNode [0;1;2;3;4]%nat [1] 2 (TLeaf [0;1;2]%nat) (TLeaf [3;4]%nat) in
  tokb X 0 t = true /\ untiedb 0 t (X 4%nat) = true /\ route (erase t) (X 4%nat) = [3;4]%nat.
Proof. vm_compute. repeat split; reflexivity. Qed.
