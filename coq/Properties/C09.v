(* C09 — Soft routing computes the documented leaf mixture.
   Models: XV.Model.Soft (cache builder, rational truncation), XV.Real.SoftReal (weights over the reals). *)
From Coq Require Import Reals QArith List Bool Arith Lra.
Require Import XV.Model.Tree XV.Model.Soft XV.Proofs.SoftProofs XV.Proofs.TruncProofs XV.Real.SoftReal.
Import ListNotations.

(* (1) the explicit-stack cache builder yields, for EVERY tree, the structural table: preorder node ids,
       leaves left to right, per-leaf gate paths *)
Theorem C09_cache_is_structural_path_table : forall (L : Type) (T : tree L),
  build_cache T = Some (paths T, nodes T).
Proof. exact @build_cache_spec. Qed.
Print Assumptions C09_cache_is_structural_path_table.

(* (2) softmax over leaves of the summed log-sigmoid gate terms (any stabilising shift) = product of the gate sigmoids;
       the weights are positive and sum to one *)
Theorem C09_weights_are_gate_products : forall (L : Type) (m : R) (z : nat -> R) (T : tree L),
  soft_weights m z (map snd (paths T)) = map (fun mp => path_prob z (snd mp)) (paths T).
Proof. exact @soft_weights_are_gate_products. Qed.
Print Assumptions C09_weights_are_gate_products.

Theorem C09_weights_positive_sum_one : forall (L : Type) (m : R) (z : nat -> R) (T : tree L),
  Forall (fun w => (0 < w)%R) (soft_weights m z (map snd (paths T))) /\ rsum (soft_weights m z (map snd (paths T))) = 1%R.
Proof. exact @soft_weights_nonneg_sum_one. Qed.
Print Assumptions C09_weights_positive_sum_one.

(* (3) truncation: renormalising any non-negative masked weights with positive total gives a point of the simplex,
       hence the aggregated output lies in the convex hull of the evaluated leaves' outputs *)
Theorem C09_renormalised_weights_on_simplex : forall m : list Q,
  Forall (fun x => 0 <= x) m -> 0 < qsum m ->
  Forall (fun x => 0 <= x) (map (fun x => x / qsum m) m) /\ qsum (map (fun x => x / qsum m) m) == 1.
Proof. exact normalised_is_simplex. Qed.
Print Assumptions C09_renormalised_weights_on_simplex.

Theorem C09_output_in_convex_hull : forall (w v : list Q) (lo hi : Q), length w = length v ->
  Forall (fun x => 0 <= x) w -> qsum w == 1 ->
  (forall i, (i < length w)%nat -> 0 < nth i w 0 -> lo <= nth i v 0 <= hi) ->
  lo <= wdot w v <= hi.
Proof. exact convex_hull. Qed.
Print Assumptions C09_output_in_convex_hull.

(* the active set is a prefix of the weights in descending order (top-weighted) ... *)
Theorem C09_active_set_is_top_weighted : forall (l : list (Q * nat)) k a b,
  In a (firstn k (sort_desc l)) -> In b (skipn k (sort_desc l)) -> fst b <= fst a.
Proof. intros l k. apply sorted_prefix_top. apply sort_desc_sorted. Qed.
Print Assumptions C09_active_set_is_top_weighted.

(* ... of the smallest length whose cumulative mass reaches `keep` (every shorter prefix is below keep, the kept one is not),
   and never more than the cap *)
Theorem C09_kept_prefix_is_smallest_reaching_keep : forall keep (sorted : list Q),
  Forall (fun x => 0 <= x) sorted ->
  let c := prefix_sums sorted in
  let k := length (filter (below keep) c) in
  Forall (fun x => x < keep) (firstn k c) /\ Forall (fun x => keep <= x) (skipn k c).
Proof. intros keep sorted H. apply (filter_below_prefix keep sorted 0 H). Qed.
Print Assumptions C09_kept_prefix_is_smallest_reaching_keep.

Theorem C09_kept_count_within_cap : forall keep cap sorted, (1 <= cap)%nat -> sorted <> [] ->
  (1 <= keep_count keep cap sorted <= Nat.min cap (length sorted))%nat.
Proof. exact keep_count_bounds. Qed.
Print Assumptions C09_kept_count_within_cap.

(* (4) T -> 0+ : the leaf reached by hard routing is in the table, follows the logits' signs, and carries weight at least
       1 - D exp(-mu) where mu = (least margin on the route) / T; and a mixture on the simplex is within (1 - w_h) B of leaf h *)
Theorem C09_hard_leaf_weight_tends_to_one : forall (L : Type) (z : nat -> R) (x : list Q) (T : tree L) (mu : R),
  (0 <= mu)%R -> logits_of z x T 0 ->
  (forall g, In g (hard_path T x 0) -> (mu <= Rabs (z (fst g)))%R) ->
  In (route T x, hard_path T x 0) (paths T) /\
  (1 - INR (length (hard_path T x 0)) * exp (- mu) <= path_prob z (hard_path T x 0) <= 1)%R.
Proof. exact @hard_leaf_weight_tends_to_one. Qed.
Print Assumptions C09_hard_leaf_weight_tends_to_one.

Theorem C09_mixture_close_to_dominant_leaf : forall (w v : list R) (h : nat) (B : R), length w = length v ->
  Forall (fun x => (0 <= x)%R) w -> rsum w = 1%R -> (h < length w)%nat ->
  (forall i, (i < length w)%nat -> (Rabs (nth i v 0 - nth h v 0) <= B)%R) ->
  (Rabs (wsum w v - nth h v 0) <= (1 - nth h w 0) * B)%R.
Proof. exact mixture_close_to_dominant. Qed.
Print Assumptions C09_mixture_close_to_dominant_leaf.

(* non-vacuity *)
(* the relational checker evaluated on the implementation's truncated weights accepts the reference truncation
   (sort, smallest prefix reaching keep, cap, renormalise) for every positive weight vector, keep, cap and slack *)
Theorem C09_reference_truncation_is_accepted : forall (e keep : Q) (cap : nat) (w : list Q),
  (0 <= e)%Q -> (1 <= cap)%nat -> w <> [] -> List.Forall (fun x => (0 < x)%Q) w ->
  trunc_okb e keep cap w (truncate keep cap w) = true.
Proof. exact truncate_accepted. Qed.
Print Assumptions C09_reference_truncation_is_accepted.

Example C09_example_cache :
  let T : tree nat := Node [1] 0 (Node [1] (-1) (Leaf 10%nat) (Leaf 11%nat)) (Node [1] 1 (Leaf 12%nat) (Node [1] 2 (Leaf 13%nat) (Leaf 14%nat))) in
  map snd (paths T) = [[(0, true); (1, true)]; [(0, true); (1, false)]; [(0, false); (2, true)];
                       [(0, false); (2, false); (3, true)]; [(0, false); (2, false); (3, false)]]%nat.
Proof. vm_compute. reflexivity. Qed.
Example C09_example_truncate :
  Qlist_eqb (truncate (1#2) 12 [1#10; 6#10; 1#100; 29#100]) [0; 1; 0; 0] = true /\
  Qlist_eqb (truncate 1 2 [1#10; 6#10; 1#100; 29#100]) [0; 60#89; 0; 29#89] = true.
Proof. vm_compute. split; reflexivity. Qed.

(* ---------- the weight computation as the code performs it (with its clamps), re-translated from the source on every run ---------- *)
Require Import XV.Real.SoftOps.
Local Open Scope R_scope.
(* the code accumulates the log-sigmoids with a left fold starting from 0: the same number as the model's path log-probability *)
Theorem C09_code_accumulation_is_path_log_probability : forall z p, code_path_logp z p = path_logp z p.
Proof. exact code_path_logp_eq. Qed.
(* clamp(min=-50) -> max -> subtract -> exp -> sum -> clamp(min=tiny) -> divide: whenever no leaf has log-probability below -50
   (probability below e^-50 ~ 2e-22) the code's weights ARE the gate products, for every tree and every logits *)
Theorem C09_code_weights_are_gate_products : forall (L : Type) (tiny : R) (z : nat -> R) (T : tree L), tiny <= 1 ->
  (forall mp, In mp (paths T) -> -50 <= path_logp z (snd mp)) ->
  code_weights tiny (map (code_path_logp z) (map snd (paths T))) = map (fun mp => path_prob z (snd mp)) (paths T).
Proof. exact @code_weights_are_gate_products. Qed.
(* always (clamps active or not): positive weights summing to one *)
Theorem C09_code_weights_form_a_distribution : forall tiny lps, tiny <= 1 -> lps <> [] ->
  Forall (fun w => 0 < w) (code_weights tiny lps) /\ SoftReal.rsum (code_weights tiny lps) = 1.
Proof. exact code_weights_distribution. Qed.
(* the effect of the -50 clamp on a tree: a leaf with probability P >= e^-50 gets weight in [P / (1 + n e^-50), P]; a leaf below gets at most e^-50 *)
Theorem C09_clamp_effect_is_negligible : forall (L : Type) tiny z (T : tree L), tiny <= 1 ->
  let lps := map (code_path_logp z) (map snd (paths T)) in let n := length (paths T) in forall i, (i < n)%nat ->
  let P := path_prob z (snd (nth i (paths T) (route T [], []))) in let w := nth i (code_weights tiny lps) 0 in
  (exp (-50) <= P -> P / (1 + INR n * exp (-50)) <= w <= P) /\ (P < exp (-50) -> 0 < w <= exp (-50)).
Proof. exact @clamp_effect_on_tree. Qed.
Print Assumptions C09_code_weights_are_gate_products.
Print Assumptions C09_code_weights_form_a_distribution.
Print Assumptions C09_clamp_effect_is_negligible.

(* ---------- end to end: weights as coded -> ANY top-weighted active set -> renormalisation -> aggregation ---------- *)
Require Import XV.Real.SoftEnd.
(* whatever set of leaves the truncation keeps (top-weighted, non-empty): non-negative weights summing to one, output in the convex hull of the leaf values *)
Theorem C09_truncated_weights_form_a_distribution : forall w act, Forall (fun x => 0 < x) w -> active_ok w act ->
  Forall (fun x => 0 <= x) (trunc_out w act) /\ SoftReal.rsum (trunc_out w act) = 1.
Proof. exact trunc_out_distribution. Qed.
Theorem C09_soft_prediction_in_convex_hull : forall w act vals lo hi, Forall (fun x => 0 < x) w -> active_ok w act -> length vals = length w ->
  (forall i, (i < length w)%nat -> lo <= nth i vals 0 <= hi) -> lo <= soft_pred (trunc_out w act) vals <= hi.
Proof. exact soft_pred_in_hull. Qed.
(* T -> 0+: with margin mu on the hard path (|logit| >= mu at each of its D gates, D e^-mu < 1/2, no leaf below e^-50), for EVERY keep fraction and leaf cap
   the soft prediction of the tree is within D e^-mu B of the hard-routed leaf's value (B bounds the spread of the leaf values) *)
Theorem C09_soft_prediction_converges_to_hard : forall (L : Type) (tiny : R) (z : nat -> R) (T : tree L) (act : list bool) (vals : list R) (h : nat) (d : L * gpath) (mu B : R),
  tiny <= 1 -> 0 <= mu -> 0 <= B -> (forall mp, In mp (paths T) -> -50 <= path_logp z (snd mp)) ->
  let W := code_weights tiny (map (code_path_logp z) (map snd (paths T))) in let p := snd (nth h (paths T) d) in
  (h < length (paths T))%nat -> (forall g, In g p -> consistent z g /\ mu <= Rabs (z (fst g))) -> INR (length p) * exp (- mu) < 1 / 2 ->
  active_ok W act -> length vals = length (paths T) -> (forall i, (i < length (paths T))%nat -> Rabs (nth i vals 0 - nth h vals 0) <= B) ->
  Rabs (soft_pred (trunc_out W act) vals - nth h vals 0) <= INR (length p) * exp (- mu) * B.
Proof. exact @soft_tree_pred_close_to_hard. Qed.
Print Assumptions C09_truncated_weights_form_a_distribution.
Print Assumptions C09_soft_prediction_in_convex_hull.
Print Assumptions C09_soft_prediction_converges_to_hard.
