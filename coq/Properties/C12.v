(* C12 — Class probabilities are valid distributions and consistent with labels.
   Model: XV.Model.Labels (decode -> clamp -> normalise; argmax; mixtures), XV.Model.Tree (hard routing), XV.Model.Soft (aggregate). *)
From Coq Require Import QArith List Bool Arith.
Require Import XV.Model.Tree XV.Model.Soft XV.Model.Labels XV.Proofs.LabelsProofs XV.Proofs.TreeProofs.
Import ListNotations.
Local Open Scope Q_scope.

(* a leaf's probability row is a valid distribution whatever the raw kernel expansion is (any finite vector: far points, huge values) *)
Theorem C12_leaf_row_is_distribution : forall (eps : Q) (raw : list Q), 0 < eps -> eps < 1 # 2 -> raw <> [] ->
  let p := normalise (map (qclamp eps (1 - eps)) raw) in
  length p = length raw /\ Forall (fun x => 0 < x) p /\ qsum p == 1.
Proof.
  intros eps raw He Hh Hne. destruct (clamped_normalised_is_distribution eps raw He Hh Hne) as (A & B & C & _). auto.
Qed.
Print Assumptions C12_leaf_row_is_distribution.

(* ensemble mean over trees and soft-routing mixtures: any convex combination of distributions sums to one *)
Theorem C12_mixture_is_distribution : forall n (w : list Q) (rows : list (list Q)),
  length w = length rows -> Forall (fun r => length r = n /\ qsum r == 1) rows -> qsum w == 1 ->
  qsum (aggregate w rows n) == 1.
Proof. intros n w rows Hl Hr Hw. rewrite (mixture_of_distributions_sums_to_one n w rows Hl Hr). exact Hw. Qed.
Print Assumptions C12_mixture_is_distribution.

(* the label is a class id *)
Theorem C12_label_in_range : forall v : list Q, v <> [] -> (argmax v < length v)%nat.
Proof. exact argmax_in_range. Qed.
Print Assumptions C12_label_in_range.

(* single hard-routed tree: predict = argmax of the predict_proba row, for every tree and batch: both are the row-wise
   functions (argmax o decode) and (decode) of the SAME leaf output, by C01's theorem *)
Theorem C12_label_is_argmax_of_proba_row :
  forall (L : Type) (raw : L -> list Q -> list Q) (dec : list Q -> list Q) (bs : nat) (T : tree L) (X : list (list Q)), (0 < bs)%nat ->
  map argmax (predict_tree_hard (list Q) (fun m x => dec (raw m x)) bs T X)
  = predict_tree_hard nat (fun m x => argmax (dec (raw m x))) bs T X.
Proof. intros. rewrite !predict_tree_hard_spec by assumption. rewrite map_map. reflexivity. Qed.
Print Assumptions C12_label_is_argmax_of_proba_row.

(* prevalence mode far from the data: the raw expansion tends to 0 and 0 decodes to the prior (C13); a prior that is within
   delta of a unit vector... in general the far-field row is the clamped, renormalised prior: *)
Theorem C12_far_field_row : forall (eps : Q) (invA : list (list Q)) (K : nat),
  probas_prevalence eps invA (repeat 0 (K - 1)) = normalise (map (qclamp eps (1 - eps)) (raw_prevalence invA (repeat 0 (K - 1)))).
Proof. reflexivity. Qed.

Example C12_example :
  Qlist_eqb (probas_zero_one (1#1000) [12#10; -(3#10); 1#10]) [999#1100; 1#1100; 100#1100] = true /\
  argmax (probas_zero_one (1#1000) [12#10; -(3#10); 1#10]) = 0%nat.
Proof. vm_compute. split; reflexivity. Qed.

(* ---------- rows far from all training data: quantitative form of "equal the training class frequencies" ---------- *)
From Coq Require Import Qabs.
Require Import XV.Proofs.FarRows.
(* prevalence decoding is affine: the zero prediction decodes to the prior column of the decoder matrix, and a raw prediction with entries bounded by delta
   (|sum_i alpha_i K(x, c_i)| <= W * max_i K(x, c_i), which tends to 0 for far rows) decodes, AFTER clamping to [eps, 1-eps] and renormalising, to within
   2 (K-1) B delta / eps of the decoded prior, where B bounds the entries of the decoder matrix *)
Theorem C12_far_rows_decode_near_the_prior : forall eps invA num delta B,
  0 < eps -> eps <= 1 # 2 -> Forall (fun row => length row = S (length num)) invA ->
  (forall j, Qabs (nth j num 0) <= delta) -> (forall i j, Qabs (nth j (nth i invA []) 0) <= B) -> 0 <= delta -> 0 <= B ->
  forall i, (i < length invA)%nat ->
  Qabs (nth i (probas_prevalence eps invA num) 0 - nth i (probas_prior eps (length num) invA) 0) <= 2 * (inject_Z (Z.of_nat (length num)) * B * delta) / eps.
Proof. exact probas_prevalence_near_prior. Qed.
Theorem C12_zero_prediction_decodes_to_the_prior : forall invA k, Forall (fun row => length row = S k) invA -> forall i, (i < length invA)%nat ->
  nth i (raw_prevalence invA (repeat 0 k)) 0 == nth k (nth i invA []) 0.
Proof. exact raw_prevalence_zero. Qed.
Print Assumptions C12_far_rows_decode_near_the_prior.

(* the order "decode every tree, then average" (what C01 / C12 state) is NOT interchangeable with "average the raw outputs, then decode": the decoder clamps.
   Witness: two trees, binary zero/one decoding, eps = 1/1000, raw outputs 3/5 and 6/5: [0.2005; 0.7995] versus [0.1; 0.9]. *)
Theorem C12_decoding_does_not_commute_with_the_mean_over_trees :
  exists (eps : Q) (r1 r2 : list Q),
    ~ Forall2 Qeq (mean_rows [probas_zero_one eps r1; probas_zero_one eps r2]) (probas_zero_one eps (mean_rows [r1; r2])).
Proof.
  exists (1 # 1000), [3 # 5], [6 # 5]. vm_compute. intros H. inversion H as [|a b la lb Hab _]; subst. vm_compute in Hab. discriminate Hab.
Qed.
Print Assumptions C12_decoding_does_not_commute_with_the_mean_over_trees.
