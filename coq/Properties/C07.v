(* C07 — Every training sample is used exactly once: as a center or as leaf validation.
   Model: XV.Model.Split (rtree: recorded run with a local checker; refill_count; generative refill/split on lists). *)
From Coq Require Import ZArith List Bool Lia Permutation.
Require Import XV.Model.Split XV.Proofs.SplitProofs.
Import ListNotations.
Open Scope Z_scope.

(* zero overlap, any tree: if every node passes the LOCAL check (children partition the node by the ceil/floor sizes,
   a leaf's centers ++ moved are what it received, the number moved follows the refill rule) then GLOBALLY the
   centers and moved samples of all leaves are exactly the training set, each sample once *)
Theorem C07_exact_once_accounting : forall t min_val,
  rtree_okb true min_val t = true ->
  Permutation (rrecv t) (all_used t) /\ (NoDup (rrecv t) -> NoDup (all_used t)).
Proof.
  intros t mv H. pose proof (rtree_accounting t true mv H) as P. split; [exact P|].
  intros N. eapply Permutation_NoDup; eassumption.
Qed.
Print Assumptions C07_exact_once_accounting.

(* never both, never in two leaves: immediate from NoDup of the concatenation *)
Theorem C07_refill_rule_everywhere : forall t min_val,
  rtree_okb true min_val t = true -> rleaf_refill_ok true min_val t.
Proof. intros. apply rtree_refill. assumption. Qed.
Print Assumptions C07_refill_rule_everywhere.

Theorem C07_refill_count_bounds : forall n_val n_train min_val cap, 0 <= cap ->
  0 <= refill_count n_val n_train min_val cap <= cap /\
  (n_val <= min_val -> refill_count n_val n_train min_val cap <= min_val - n_val) /\
  (min_val < n_val -> refill_count n_val n_train min_val cap = 0).
Proof. exact refill_count_bounds. Qed.
Print Assumptions C07_refill_count_bounds.

(* the generative model: for ANY permutation that randperm returns, kept and moved partition the node's samples,
   and exactly k are moved; kept and moved are taken by the same positions from ids (so rows/targets/indices stay aligned) *)
Theorem C07_refill_partitions_for_any_permutation :
  forall (A : Type) (d : A) (perm : list nat) (k : Z) (ids : list A),
  Permutation perm (seq 0 (length ids)) -> 0 <= k <= Z.of_nat (length perm) ->
  Permutation ids (refill_kept d perm k ids ++ refill_moved d perm k ids) /\
  Z.of_nat (length (refill_moved d perm k ids)) = k.
Proof. intros. split; [apply refill_partition; assumption|apply refill_moved_length; assumption]. Qed.
Print Assumptions C07_refill_partitions_for_any_permutation.

Theorem C07_zero_overlap_split_partitions : forall (A : Type) (sorted : list A),
  split_left sorted 0 ++ split_right sorted 0 = sorted.
Proof. exact @split_partition. Qed.
Print Assumptions C07_zero_overlap_split_partitions.

Theorem C07_split_sizes_on_lists : forall (A : Type) (sorted : list A) o, 0 <= o <= Z.of_nat (length sorted) ->
  Z.of_nat (length (split_left sorted o)) = left_size (Z.of_nat (length sorted)) o /\
  Z.of_nat (length (split_right sorted o)) = right_size (Z.of_nat (length sorted)) o.
Proof. exact @split_lengths. Qed.
Print Assumptions C07_split_sizes_on_lists.

Example C07_example :
  let t := RNode [0;1;2;3;4;5;6]%nat
             (RLeaf [3;0;5;1]%nat [3;0;5]%nat [1]%nat 0)       (* 4 received, 0 routed val, refill size 1, cap 4/5=0 -> ... *)
             (RLeaf [2;4;6]%nat [2;4;6]%nat []%nat 2) in
  rtree_okb true 1 t = false /\
  rtree_okb true 1 (RNode [0;1;2;3;4;5;6;7;8;9]%nat (RLeaf [0;1;2;3;4]%nat [0;2;3;4]%nat [1]%nat 0) (RLeaf [5;6;7;8;9]%nat [5;6;7;8;9]%nat []%nat 2)) = true.
Proof. vm_compute. split; reflexivity. Qed.
