(* C02 — Leaf coefficients solve the ridge system of the state that is stored.
   Part 1 (this file, exact): coherence of the returned state for every history and every switch setting.
   Model: XV.Model.Select.run; solve / AGOP / bandwidth adaptation are abstract (tags), which is what makes the statement
   independent of LAPACK.  The numeric residual on real fits is the correspondence part of the check. *)
From Coq Require Import List Bool Arith QArith.
Require Import XV.Model.Select XV.Proofs.SelectProofs.
Import ListNotations.
Local Open Scope nat_scope.

(* Whichever iterate is selected, with or without early stopping, with or without best-parameter restoration: the stored
   coefficients were solved against exactly the stored feature matrix version and the stored bandwidth.
   Hypothesis: no score is "worse than the infinite sentinel by a factor" (true for finite floats). *)
Theorem C02_returned_state_is_coherent :
  forall (S : Type) (init : S) (better stop : S -> S -> bool),
  (forall s, stop s init = false) ->
  forall iters lbl rb es scores w m bw bi e st,
  run S init better stop iters lbl rb es scores = Out w m bw bi e st -> w_m w = m /\ w_bw w = bw.
Proof. exact run_state_coherent. Qed.
Print Assumptions C02_returned_state_is_coherent.

(* without that hypothesis the model (and the code) can return coefficients of iterate i with the matrix of iterate i+1:
   the branch `early stop and not return_best_params` — refuted-without-hypothesis witness *)
Example C02_incoherent_without_hypothesis :
  exists w m bw bi e st,
    run nat 5 (fun _ _ => false) (fun cur best => Nat.ltb best cur) 2 (Some 2) false true [7; 7; 7] = Out w m bw bi e st
    /\ w_m w <> m.
Proof. do 6 eexists. split; [vm_compute; reflexivity|]. cbn. discriminate. Qed.

Theorem C02_rational_instance : forall minimize mult iters lbl rb es (qs : list (option Q)) w m bw bi e st,
  run (option Q) None (q_better minimize) (q_stop minimize mult) iters lbl rb es qs = Out w m bw bi e st ->
  w_m w = m /\ w_bw w = bw.
Proof. intros minimize mult. apply run_state_coherent. apply qstop_init. Qed.
Print Assumptions C02_rational_instance.

Example C02_example :
  run (option Q) None (q_better true) (q_stop true (11#10)%Q) 2 (Some 2) false true (map Some [3; 9; 1]%Q)
  = Out {| w_iter := 2; w_m := 2; w_bw := 2 |} 2 2 None 3 false.
Proof. vm_compute. reflexivity. Qed.

(* ---------- the ridge system itself (re-translated from fit_predictor_lstsq on every run: harness/solveops.py) ---------- *)
Require Import Reals.
Require Import XV.Real.Kernels XV.Real.Ridge.
(* the code adds reg to the diagonal of the Gram matrix in place and solves against the targets: alpha solves that system iff the predictions at the
   training centers equal Y - lambda * alpha (the "equivalently" clause of the property), for any size *)
Theorem C02_ridge_system_equivalent_forms : forall n (reg : R) K a y, square n K -> length a = n -> length y = n ->
  (mvR (add_diagR reg K) a = y <-> mvR K a = vsubR y (vscaleR reg a)).
Proof. exact ridge_equiv. Qed.
(* for a positive semi-definite Gram matrix and lambda > 0 the solution is unique: whatever LAPACK routine produced coefficients with zero residual
   produced THE ridge coefficients (all three solver branches agree) ... *)
Theorem C02_ridge_solution_is_unique : forall n (reg : R) K a b, (0 < reg)%R -> square n K -> psdR n K -> length a = n -> length b = n ->
  mvR (add_diagR reg K) a = mvR (add_diagR reg K) b -> a = b.
Proof. exact ridge_unique. Qed.
(* ... and a small residual means closeness to it: |a - b| <= |residual| / lambda (the numeric residual check of the harness bounds the distance
   of the stored coefficients from the exact ridge solution) *)
Theorem C02_small_residual_means_close_to_the_solution : forall n (reg : R) K a b, (0 < reg)%R -> square n K -> psdR n K -> length a = n -> length b = n ->
  let d := vsubR a b in let r := vsubR (mvR (add_diagR reg K) a) (mvR (add_diagR reg K) b) in (sqrt (vdotR d d) <= sqrt (vdotR r r) / reg)%R.
Proof. exact residual_bound_norm. Qed.
Print Assumptions C02_ridge_system_equivalent_forms.
Print Assumptions C02_ridge_solution_is_unique.
Print Assumptions C02_small_residual_means_close_to_the_solution.

(* ---------- composition with C05: for the kernels proved positive semi-definite the ridge coefficients are uniquely determined ---------- *)
Require Import XV.Real.PsdProduct XV.Real.PsdMore XV.Real.PsdCompose.
(* the Gram matrix of any kernel with a non-negative quadratic form on the centers, plus lambda > 0: one solution only *)
Theorem C02_ridge_unique_for_psd_kernels : forall k xs (reg : R) a b, psd_on k xs -> (0 < reg)%R -> length a = length xs -> length b = length xs ->
  mvR (add_diagR reg (gram k xs)) a = mvR (add_diagR reg (gram k xs)) b -> a = b.
Proof. exact ridge_unique_of_psd. Qed.
(* instances: the product (L1) Laplace kernel with exponent 1 and the Gaussian case of the L2 kernel — any number of centers, any dimension, any transform *)
Theorem C02_ridge_unique_product_laplace_q1 : forall t L (reg : R) xs d a b, (0 < L)%R -> wf_tmat t d -> Forall (fun x => length x = d) xs -> (0 < reg)%R ->
  length a = length xs -> length b = length xs ->
  mvR (add_diagR reg (gram (laplace_product t L 1) xs)) a = mvR (add_diagR reg (gram (laplace_product t L 1) xs)) b -> a = b.
Proof. exact ridge_unique_product_q1. Qed.
Theorem C02_ridge_unique_gaussian : forall t L (reg : R) xs d a b, (0 < L)%R -> wf_tmat t d -> Forall (fun x => length x = d) xs -> (0 < reg)%R ->
  length a = length xs -> length b = length xs ->
  mvR (add_diagR reg (gram (laplace_l2 t L 2) xs)) a = mvR (add_diagR reg (gram (laplace_l2 t L 2) xs)) b -> a = b.
Proof. exact ridge_unique_l2_q2. Qed.
Print Assumptions C02_ridge_unique_for_psd_kernels.
Print Assumptions C02_ridge_unique_product_laplace_q1.
Print Assumptions C02_ridge_unique_gaussian.
