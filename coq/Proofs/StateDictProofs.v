(* StateDictProofs — round-trip theorems for the state-dict model of XV.Model.StateDict.
   No axioms: everything is "Closed under the global context". *)
From Coq Require Import List String Bool Arith.
Require Import XV.Model.StateDict.
Import ListNotations.
Open Scope string_scope.
Open Scope list_scope.

Section Proofs.
Variable V : Type.
Variable V_eqb : V -> V -> bool.
Variables (exp_leaf exp_node : etable V).
Variable load_leaf : list (string * string).
Variable load_defaults : dict V.
Variable load_children : list string.
Variable centers_key : string.
Variable gather : list nat -> pval V.
Variable pred_node_keys : list (string * option (pval V)).
Variable pred_leaf_attrs : list string.

Hypothesis V_eqb_sound : forall x y, V_eqb x y = true -> x = y.
Hypothesis OK : tables_okb V V_eqb exp_leaf exp_node load_leaf load_children centers_key pred_node_keys pred_leaf_attrs = true.

Local Notation export := (XV.Model.StateDict.export V exp_leaf exp_node).
Local Notation load := (XV.Model.StateDict.load V load_leaf load_defaults load_children centers_key gather).
Local Notation load_root := (XV.Model.StateDict.load_root V load_leaf load_defaults load_children centers_key gather).
Local Notation view_f := (XV.Model.StateDict.view_f V pred_node_keys pred_leaf_attrs).
Local Notation view_l := (XV.Model.StateDict.view_l V pred_node_keys pred_leaf_attrs).
Local Notation centers_ok := (XV.Model.StateDict.centers_ok V gather).
Local Notation to_f := (XV.Model.StateDict.to_f V).
Local Notation wf_f := (XV.Model.StateDict.wf_f V exp_leaf exp_node).
Local Notation dget := (XV.Model.StateDict.dget V).
Local Notation dget_default := (XV.Model.StateDict.dget_default V).
Local Notation eval_entries := (XV.Model.StateDict.eval_entries V).
Local Notation child_key := (XV.Model.StateDict.child_key V).
Local Notation load_attrs := (XV.Model.StateDict.load_attrs V).
Local Notation is_leaf_dict := (XV.Model.StateDict.is_leaf_dict V).
Local Notation has_type := (XV.Model.StateDict.has_type V).
Local Notation read_node := (XV.Model.StateDict.read_node V pred_node_keys).
Local Notation read_leaf := (XV.Model.StateDict.read_leaf V pred_leaf_attrs).
Local Notation plain_dst_keys := (XV.Model.StateDict.plain_dst_keys V).
Local Notation is_child := (XV.Model.StateDict.is_child V).
Local Notation entries_present := (XV.Model.StateDict.entries_present V).

(* ------------------------------------------------------------------ *)
(* dget: last binding wins                                             *)
(* ------------------------------------------------------------------ *)
Lemma dget_cons_some : forall (d : dict V) k' v' k v,
  dget d k = Some v -> dget ((k', v') :: d) k = Some v.
Proof. intros d k' v' k v H. cbn [XV.Model.StateDict.dget]. rewrite H. reflexivity. Qed.

Lemma dget_cons_none : forall (d : dict V) k' v' k,
  dget d k = None -> dget ((k', v') :: d) k = if String.eqb k k' then Some v' else None.
Proof. intros d k' v' k H. cbn [XV.Model.StateDict.dget]. rewrite H. reflexivity. Qed.

Lemma dget_app_some : forall (d1 d2 : dict V) k v,
  dget d2 k = Some v -> dget (d1 ++ d2) k = Some v.
Proof.
  induction d1 as [|[k' v'] d1 IH]; intros d2 k v H.
  - exact H.
  - cbn [app]. apply dget_cons_some. apply IH. exact H.
Qed.

Lemma dget_app_none : forall (d1 d2 : dict V) k,
  dget d2 k = None -> dget (d1 ++ d2) k = dget d1 k.
Proof.
  induction d1 as [|[k' v'] d1 IH]; intros d2 k H.
  - cbn [app]. rewrite H. reflexivity.
  - cbn [app XV.Model.StateDict.dget]. rewrite (IH d2 k H). reflexivity.
Qed.

Lemma dget_single_same : forall k (v : pval V), dget [(k, v)] k = Some v.
Proof. intros k v. cbn [XV.Model.StateDict.dget]. rewrite String.eqb_refl. reflexivity. Qed.

Lemma dget_single_other : forall k k' (v : pval V), String.eqb k k' = false -> dget [(k', v)] k = None.
Proof. intros k k' v H. cbn [XV.Model.StateDict.dget]. rewrite H. reflexivity. Qed.

Lemma dget_in_keys : forall (d : dict V) k,
  existsb (String.eqb k) (map fst d) = true -> exists v, dget d k = Some v.
Proof.
  induction d as [|[k' v'] d IH]; intros k H.
  - discriminate H.
  - cbn [map fst existsb] in H. cbn [XV.Model.StateDict.dget].
    destruct (dget d k) as [w|] eqn:E.
    + exists w. reflexivity.
    + destruct (String.eqb k k') eqn:K.
      * exists v'. reflexivity.
      * cbn [orb] in H. destruct (IH k H) as [v Hv]. rewrite Hv in E. discriminate E.
Qed.

Lemma existsb_app_l : forall (f : string -> bool) l1 l2, existsb f l1 = true -> existsb f (l1 ++ l2) = true.
Proof. intros f l1 l2 H. rewrite existsb_app. rewrite H. reflexivity. Qed.

Lemma existsb_app_r : forall (f : string -> bool) l1 l2, existsb f l2 = true -> existsb f (l1 ++ l2) = true.
Proof. intros f l1 l2 H. rewrite existsb_app. rewrite H. apply orb_true_r. Qed.

(* ------------------------------------------------------------------ *)
(* pval_eqb is sound                                                   *)
(* ------------------------------------------------------------------ *)
Lemma pval_eqb_sound : forall a b, pval_eqb V V_eqb a b = true -> a = b.
Proof.
  intros a b H. destruct a as [x|x|x|x]; destruct b as [y|y|y|y]; cbn [pval_eqb] in H; try discriminate H.
  - f_equal. apply V_eqb_sound. exact H.
  - destruct (list_eq_dec Nat.eq_dec x y) as [e|n]; [subst; reflexivity | discriminate H].
  - f_equal. apply Bool.eqb_prop. exact H.
  - f_equal. apply String.eqb_eq. exact H.
Qed.

(* ------------------------------------------------------------------ *)
(* eval_entries                                                        *)
(* ------------------------------------------------------------------ *)
(* the value an export entry evaluates to *)
Definition src_val (s : esrc V) (d attrs : dict V) (b : bool) : option (pval V) :=
  match s with
  | EKey _ src dflt => dget_default d src dflt
  | EAttr _ p => dget attrs p
  | EConst _ c => Some c
  | EIsRoot _ => Some (PBool V b)
  | EChild _ _ => None
  end.

(* one step of eval_entries, in a form convenient for inversion *)
Lemma eval_cons_inv : forall k s r d attrs b e,
  eval_entries ((k, s) :: r) d attrs b = Some e ->
  exists rest, eval_entries r d attrs b = Some rest /\
    ((is_child s = true /\ e = rest) \/
     (is_child s = false /\ exists v, src_val s d attrs b = Some v /\ e = (k, v) :: rest)).
Proof.
  intros k s r d attrs b e H. cbn [XV.Model.StateDict.eval_entries] in H.
  destruct (eval_entries r d attrs b) as [rest|] eqn:E; [|discriminate H].
  exists rest. split; [reflexivity|].
  destruct s as [src dflt|p|c| |src]; cbn [XV.Model.StateDict.is_child src_val].
  - destruct (dget_default d src dflt) as [v|] eqn:G; [|discriminate H].
    right. split; [reflexivity|]. exists v. split; [reflexivity|]. inversion H. reflexivity.
  - destruct (dget attrs p) as [v|] eqn:G; [|discriminate H].
    right. split; [reflexivity|]. exists v. split; [reflexivity|]. inversion H. reflexivity.
  - right. split; [reflexivity|]. exists c. split; [reflexivity|]. inversion H. reflexivity.
  - right. split; [reflexivity|]. exists (PBool V b). split; [reflexivity|]. inversion H. reflexivity.
  - left. split; [reflexivity|]. inversion H. reflexivity.
Qed.

Lemma eval_dget_none : forall tbl d attrs b e k,
  eval_entries tbl d attrs b = Some e -> tget tbl k = None -> dget e k = None.
Proof.
  induction tbl as [|[k' s] r IH]; intros d attrs b e k H T.
  - cbn [XV.Model.StateDict.eval_entries] in H. inversion H. reflexivity.
  - destruct (eval_cons_inv _ _ _ _ _ _ _ H) as [rest [Hr Hc]].
    cbn [tget] in T.
    destruct (tget r k) as [w|] eqn:Tr; [discriminate T|].
    destruct (String.eqb k k') eqn:K; [discriminate T|].
    pose proof (IH d attrs b rest k Hr Tr) as Hn.
    destruct Hc as [[_ He] | [_ [v [_ He]]]]; subst e.
    + exact Hn.
    + rewrite (dget_cons_none _ _ _ _ Hn). rewrite K. reflexivity.
Qed.

(* the last entry of the table for k, when it is a plain one, determines dget e k *)
Lemma eval_dget : forall tbl d attrs b e k s,
  eval_entries tbl d attrs b = Some e -> tget tbl k = Some s -> is_child s = false ->
  exists v, src_val s d attrs b = Some v /\ dget e k = Some v.
Proof.
  induction tbl as [|[k' s'] r IH]; intros d attrs b e k s H T C.
  - discriminate T.
  - destruct (eval_cons_inv _ _ _ _ _ _ _ H) as [rest [Hr Hc]].
    cbn [tget] in T.
    destruct (tget r k) as [w|] eqn:Tr.
    + inversion T; subst w.
      destruct (IH d attrs b rest k s Hr Tr C) as [v [Hv Hd]].
      exists v. split; [exact Hv|].
      destruct Hc as [[_ He] | [_ [v' [_ He]]]]; subst e.
      * exact Hd.
      * apply dget_cons_some. exact Hd.
    + destruct (String.eqb k k') eqn:K; [|discriminate T].
      inversion T; subst s'.
      apply String.eqb_eq in K. subst k'.
      pose proof (eval_dget_none _ _ _ _ _ _ Hr Tr) as Hn.
      destruct Hc as [[C' _] | [_ [v [Hv He]]]].
      * rewrite C in C'. discriminate C'.
      * exists v. split; [exact Hv|]. subst e.
        rewrite (dget_cons_none _ _ _ _ Hn). rewrite String.eqb_refl. reflexivity.
Qed.

Lemma eval_keys : forall tbl d attrs b e,
  eval_entries tbl d attrs b = Some e -> map fst e = plain_dst_keys tbl.
Proof.
  induction tbl as [|[k s] r IH]; intros d attrs b e H.
  - cbn [XV.Model.StateDict.eval_entries] in H. inversion H. reflexivity.
  - destruct (eval_cons_inv _ _ _ _ _ _ _ H) as [rest [Hr Hc]].
    unfold XV.Model.StateDict.plain_dst_keys. cbn [filter snd].
    destruct Hc as [[C He] | [C [v [_ He]]]]; subst e; rewrite C; cbn [negb map fst].
    + apply (IH _ _ _ _ Hr).
    + f_equal. apply (IH _ _ _ _ Hr).
Qed.

Lemma eval_dget_dst : forall tbl d attrs b e k,
  eval_entries tbl d attrs b = Some e -> existsb (String.eqb k) (plain_dst_keys tbl) = true ->
  exists v, dget e k = Some v.
Proof.
  intros tbl d attrs b e k H E. apply dget_in_keys. rewrite (eval_keys _ _ _ _ _ H). exact E.
Qed.

(* ------------------------------------------------------------------ *)
(* load_attrs                                                          *)
(* ------------------------------------------------------------------ *)
Lemma load_attrs_cons_inv : forall a k r (d at_ : dict V),
  load_attrs ((a, k) :: r) d = Some at_ ->
  exists rest v, load_attrs r d = Some rest /\ dget d k = Some v /\ at_ = (a, v) :: rest.
Proof.
  intros a k r d at_ H. cbn [XV.Model.StateDict.load_attrs] in H.
  destruct (load_attrs r d) as [rest|] eqn:E; [|discriminate H].
  destruct (dget d k) as [v|] eqn:G; [|discriminate H].
  exists rest, v. split; [reflexivity|]. split; [reflexivity|]. inversion H. reflexivity.
Qed.

Lemma load_attrs_total : forall tbl (d : dict V),
  (forall a k, In (a, k) tbl -> exists v, dget d k = Some v) -> exists at_, load_attrs tbl d = Some at_.
Proof.
  induction tbl as [|[a k] r IH]; intros d H.
  - exists []. reflexivity.
  - destruct (IH d) as [rest Hr].
    { intros a' k' Hin. apply (H a' k'). right. exact Hin. }
    destruct (H a k) as [v Hv]. { left. reflexivity. }
    exists ((a, v) :: rest). cbn [XV.Model.StateDict.load_attrs]. rewrite Hr, Hv. reflexivity.
Qed.

Lemma load_attrs_keys : forall tbl (d at_ : dict V), load_attrs tbl d = Some at_ -> map fst at_ = map fst tbl.
Proof.
  induction tbl as [|[a k] r IH]; intros d at_ H.
  - cbn [XV.Model.StateDict.load_attrs] in H. inversion H. reflexivity.
  - destruct (load_attrs_cons_inv _ _ _ _ _ H) as [rest [v [Hr [_ He]]]]. subst at_.
    cbn [map fst]. f_equal. apply (IH _ _ Hr).
Qed.

Lemma load_attrs_dget_none : forall tbl (d at_ : dict V) a,
  load_attrs tbl d = Some at_ -> tget tbl a = None -> dget at_ a = None.
Proof.
  induction tbl as [|[a' k] r IH]; intros d at_ a H T.
  - cbn [XV.Model.StateDict.load_attrs] in H. inversion H. reflexivity.
  - destruct (load_attrs_cons_inv _ _ _ _ _ H) as [rest [v [Hr [_ He]]]]. subst at_.
    cbn [tget] in T.
    destruct (tget r a) as [w|] eqn:Tr; [discriminate T|].
    destruct (String.eqb a a') eqn:K; [discriminate T|].
    rewrite (dget_cons_none _ _ _ _ (IH _ _ _ Hr Tr)). rewrite K. reflexivity.
Qed.

Lemma load_attrs_dget : forall tbl (d at_ : dict V) a k,
  load_attrs tbl d = Some at_ -> tget tbl a = Some k -> dget at_ a = dget d k.
Proof.
  induction tbl as [|[a' k'] r IH]; intros d at_ a k H T.
  - discriminate T.
  - destruct (load_attrs_cons_inv _ _ _ _ _ H) as [rest [v [Hr [Hv He]]]]. subst at_.
    cbn [tget] in T.
    destruct (tget r a) as [w|] eqn:Tr.
    + inversion T; subst w.
      pose proof (IH _ _ _ _ Hr Tr) as Hd.
      cbn [XV.Model.StateDict.dget]. rewrite Hd.
      destruct (dget d k) as [u|] eqn:G; [reflexivity|].
      (* dget d k = None is impossible: load_attrs r d succeeded and k is read by r *)
      exfalso. clear - Hr Tr G.
      revert rest Hr Tr. induction r as [|[a2 k2] r IHr]; intros rest Hr Tr.
      * discriminate Tr.
      * destruct (load_attrs_cons_inv _ _ _ _ _ Hr) as [rest' [v' [Hr' [Hv' _]]]].
        cbn [tget] in Tr. destruct (tget r a) as [w|] eqn:Tr'.
        -- inversion Tr; subst w. apply (IHr _ Hr' eq_refl).
        -- destruct (String.eqb a a2); [|discriminate Tr]. inversion Tr; subst k2.
           rewrite Hv' in G. discriminate G.
    + destruct (String.eqb a a') eqn:K; [|discriminate T].
      inversion T; subst k'.
      rewrite (dget_cons_none _ _ _ _ (load_attrs_dget_none _ _ _ _ Hr Tr)). rewrite K.
      symmetry. exact Hv.
Qed.

(* ------------------------------------------------------------------ *)
(* what tables_okb gives                                               *)
(* ------------------------------------------------------------------ *)
Ltac ok_split H :=
  unfold tables_okb in H;
  apply andb_prop in H; destruct H as [H Hcsrc];
  apply andb_prop in H; destruct H as [H Hckey];
  apply andb_prop in H; destruct H as [H Hlk];
  apply andb_prop in H; destruct H as [H Hnoc];
  apply andb_prop in H; destruct H as [H Hattrs];
  apply andb_prop in H; destruct H as [H Hch];
  apply andb_prop in H; destruct H as [H Hnroot];
  apply andb_prop in H; destruct H as [H Hlroot];
  apply andb_prop in H; destruct H as [H Hntype];
  apply andb_prop in H; destruct H as [Hnode Hltype].

Lemma ok_centers_key : centers_key = "train_indices".
Proof. pose proof OK as H. ok_split H. apply String.eqb_eq. exact Hckey. Qed.

Lemma ok_centers_src : tget exp_leaf "train_indices" = Some (EKey V "train_indices" None).
Proof.
  pose proof OK as H. ok_split H. rewrite ok_centers_key in Hcsrc.
  destruct (tget exp_leaf "train_indices") as [[src [x|]|p|c| |src]|]; try discriminate Hcsrc.
  apply String.eqb_eq in Hcsrc. subst src. reflexivity.
Qed.

Lemma ok_leaf_type : tget exp_leaf "type" = Some (EConst V (PStr V "leaf")).
Proof.
  pose proof OK as H. ok_split H.
  destruct (tget exp_leaf "type") as [[src dflt|p|[x|x|x|s]| |src]|]; try discriminate Hltype.
  apply String.eqb_eq in Hltype. subst s. reflexivity.
Qed.

Lemma ok_node_type : exists s, tget exp_node "type" = Some (EConst V (PStr V s)) /\ String.eqb s "leaf" = false.
Proof.
  pose proof OK as H. ok_split H.
  destruct (tget exp_node "type") as [[src dflt|p|[x|x|x|s]| |src]|]; try discriminate Hntype.
  exists s. split; [reflexivity|]. apply negb_true_iff. exact Hntype.
Qed.

Lemma ok_leaf_root : tget exp_leaf "is_root" = Some (EIsRoot V).
Proof.
  pose proof OK as H. ok_split H.
  destruct (tget exp_leaf "is_root") as [[src dflt|p|c| |src]|]; try discriminate Hlroot. reflexivity.
Qed.

Lemma ok_node_root : tget exp_node "is_root" = Some (EIsRoot V).
Proof.
  pose proof OK as H. ok_split H.
  destruct (tget exp_node "is_root") as [[src dflt|p|c| |src]|]; try discriminate Hnroot. reflexivity.
Qed.

Lemma ok_children :
  child_key exp_node "left" = Some "left" /\ child_key exp_node "right" = Some "right" /\
  forallb (fun k => String.eqb k "left" || String.eqb k "right") load_children
    && existsb (String.eqb "left") load_children && existsb (String.eqb "right") load_children = true.
Proof.
  pose proof OK as H. ok_split H.
  destruct (child_key exp_node "left") as [kl|]; [|discriminate Hch].
  destruct (child_key exp_node "right") as [kr|]; [|discriminate Hch].
  apply andb_prop in Hch. destruct Hch as [Hch _].
  apply andb_prop in Hch. destruct Hch as [Hch _].
  apply andb_prop in Hch. destruct Hch as [Hch E2].
  apply andb_prop in Hch. destruct Hch as [Hch E1].
  apply andb_prop in Hch. destruct Hch as [Hch F].
  apply andb_prop in Hch. destruct Hch as [Kl Kr].
  apply String.eqb_eq in Kl. apply String.eqb_eq in Kr. subst kl kr.
  split; [reflexivity|]. split; [reflexivity|].
  rewrite F, E1, E2. reflexivity.
Qed.

Lemma ok_attrs : forall a, In a pred_leaf_attrs ->
  a = "centers" \/
  (String.eqb a "centers" = false /\ exists k, tget load_leaf a = Some k /\ tget exp_leaf k = Some (EAttr V a)).
Proof.
  intros a Ha. pose proof OK as H. ok_split H.
  rewrite forallb_forall in Hattrs. specialize (Hattrs a Ha).
  destruct (String.eqb a "centers") eqn:K.
  - left. apply String.eqb_eq. exact K.
  - right. split; [reflexivity|].
    destruct (tget load_leaf a) as [k|]; [|discriminate Hattrs].
    exists k. split; [reflexivity|].
    destruct (tget exp_leaf k) as [[src dflt|p|c| |src]|]; try discriminate Hattrs.
    apply String.eqb_eq in Hattrs. subst p. reflexivity.
Qed.

Lemma ok_load_keys : forall a k, In (a, k) load_leaf -> existsb (String.eqb k) (plain_dst_keys exp_leaf) = true.
Proof.
  intros a k Hin. pose proof OK as H. ok_split H.
  rewrite forallb_forall in Hlk. apply (Hlk (a, k) Hin).
Qed.

Lemma ok_node_keys : forall k dflt, In (k, dflt) pred_node_keys ->
  exists d', tget exp_node k = Some (EKey V k d') /\ (d' = None \/ exists a, d' = Some a /\ dflt = Some a).
Proof.
  intros k dflt Hin. pose proof OK as H. ok_split H.
  rewrite forallb_forall in Hnode. specialize (Hnode (k, dflt) Hin). cbn [fst snd] in Hnode.
  unfold esrc_is_key in Hnode.
  destruct (tget exp_node k) as [[src d'|p|c| |src]|]; try discriminate Hnode.
  apply andb_prop in Hnode. destruct Hnode as [K D].
  apply String.eqb_eq in K. subst src.
  exists d'. split; [reflexivity|].
  destruct d' as [a|]; [|left; reflexivity].
  destruct dflt as [b|]; [|discriminate D].
  right. exists a. split; [reflexivity|]. f_equal. symmetry. apply pval_eqb_sound. exact D.
Qed.

(* ------------------------------------------------------------------ *)
(* one exported leaf / node dict                                       *)
(* ------------------------------------------------------------------ *)
Lemma leaf_dict_facts : forall d attrs b e,
  eval_entries exp_leaf d attrs b = Some e ->
  is_leaf_dict e = true /\ dget e "is_root" = Some (PBool V b) /\
  dget e "train_indices" = dget d "train_indices" /\
  exists at_, load_attrs load_leaf e = Some at_.
Proof.
  intros d attrs b e Ev. repeat split.
  - destruct (eval_dget _ _ _ _ _ _ _ Ev ok_leaf_type eq_refl) as [v [Hv Hd]].
    cbn [src_val] in Hv. inversion Hv; subst v.
    unfold XV.Model.StateDict.is_leaf_dict. rewrite Hd. reflexivity.
  - destruct (eval_dget _ _ _ _ _ _ _ Ev ok_leaf_root eq_refl) as [v [Hv Hd]].
    cbn [src_val] in Hv. inversion Hv; subst v. exact Hd.
  - destruct (eval_dget _ _ _ _ _ _ _ Ev ok_centers_src eq_refl) as [v [Hv Hd]].
    cbn [src_val] in Hv. unfold XV.Model.StateDict.dget_default in Hv.
    rewrite Hd. destruct (dget d "train_indices") as [w|]; [symmetry; exact Hv | discriminate Hv].
  - apply load_attrs_total. intros a k Hin.
    apply (eval_dget_dst _ _ _ _ _ _ Ev). apply (ok_load_keys a k Hin).
Qed.

Lemma load_leaf_eq : forall e at_ idx,
  is_leaf_dict e = true -> load_attrs load_leaf e = Some at_ -> dget e "train_indices" = Some (PIdx V idx) ->
  load (PLeaf V e) = Some (LLeaf V e (at_ ++ [("centers", gather idx)])).
Proof.
  intros e at_ idx Hl Ha Hi. cbn [XV.Model.StateDict.load]. rewrite Hl, Ha, ok_centers_key, Hi. reflexivity.
Qed.

Lemma node_dict_facts : forall d b e,
  eval_entries exp_node d [] b = Some e ->
  exists s, dget e "type" = Some (PStr V s) /\ String.eqb s "leaf" = false /\
  dget e "is_root" = Some (PBool V b) /\
  read_node (load_defaults ++ e) = read_node d.
Proof.
  intros d b e Ev. destruct ok_node_type as [s [Ts Ns]].
  exists s. repeat split.
  - destruct (eval_dget _ _ _ _ _ _ _ Ev Ts eq_refl) as [v [Hv Hd]].
    cbn [src_val] in Hv. inversion Hv; subst v. exact Hd.
  - exact Ns.
  - destruct (eval_dget _ _ _ _ _ _ _ Ev ok_node_root eq_refl) as [v [Hv Hd]].
    cbn [src_val] in Hv. inversion Hv; subst v. exact Hd.
  - unfold XV.Model.StateDict.read_node. apply map_ext_in. intros [k dflt] Hin. cbn [fst snd].
    destruct (ok_node_keys k dflt Hin) as [d' [T D]].
    destruct (eval_dget _ _ _ _ _ _ _ Ev T eq_refl) as [v [Hv Hd]].
    cbn [src_val] in Hv.
    unfold XV.Model.StateDict.dget_default at 1. rewrite (dget_app_some _ _ _ _ Hd).
    unfold XV.Model.StateDict.dget_default in Hv |- *.
    destruct (dget d k) as [w|]; [symmetry; exact Hv|].
    destruct D as [D | [a [D1 D2]]].
    + subst d'. discriminate Hv.
    + subst d' dflt. symmetry. exact Hv.
Qed.

Lemma type_flags : forall (d : dict V) s, dget d "type" = Some (PStr V s) -> String.eqb s "leaf" = false ->
  has_type d = true /\ is_leaf_dict d = false.
Proof.
  intros d s H N. unfold XV.Model.StateDict.has_type, XV.Model.StateDict.is_leaf_dict. rewrite H. split; [reflexivity | exact N].
Qed.

(* ------------------------------------------------------------------ *)
(* (1) the round trip, for any is_root flag                            *)
(* ------------------------------------------------------------------ *)
Theorem roundtrip_view_gen : forall t b p, centers_ok t -> export b t = Some p ->
  exists lt, load p = Some lt /\ view_l lt = Some (view_f t).
Proof.
  induction t as [d attrs | d l IHl r IHr]; intros b p C E.
  - cbn [XV.Model.StateDict.export] in E.
    destruct (eval_entries exp_leaf d attrs b) as [e|] eqn:Ev; [|discriminate E].
    inversion E; subst p. clear E.
    destruct C as [idx [Hi Hc]].
    destruct (leaf_dict_facts _ _ _ _ Ev) as [Hl [_ [Ht [at_ Ha]]]].
    rewrite Hi in Ht.
    exists (LLeaf V e (at_ ++ [("centers", gather idx)])).
    split; [apply (load_leaf_eq _ _ _ Hl Ha Ht)|].
    cbn [XV.Model.StateDict.view_l XV.Model.StateDict.view_f]. rewrite Hl. f_equal. f_equal.
    unfold XV.Model.StateDict.read_leaf. apply map_ext_in. intros a Hin.
    destruct (ok_attrs a Hin) as [Ac | [Ne [k [T1 T2]]]].
    + subst a. rewrite (dget_app_some _ _ _ _ (dget_single_same _ _)). symmetry. exact Hc.
    + rewrite (dget_app_none _ _ _ (dget_single_other _ _ _ Ne)).
      rewrite (load_attrs_dget _ _ _ _ _ Ha T1).
      destruct (eval_dget _ _ _ _ _ _ _ Ev T2 eq_refl) as [v [Hv Hd]].
      cbn [src_val] in Hv. rewrite Hd, Hv. reflexivity.
  - destruct ok_children as [CL [CR CC]].
    cbn [XV.Model.StateDict.export] in E. rewrite CL, CR in E.
    destruct (eval_entries exp_node d [] b) as [e|] eqn:Ev; [|discriminate E].
    destruct (export false l) as [pl|] eqn:El; [|discriminate E].
    destruct (export false r) as [pr|] eqn:Er; [|discriminate E].
    inversion E; subst p. clear E.
    destruct C as [Cl Cr].
    destruct (IHl false pl Cl El) as [ll [Ll Vl]].
    destruct (IHr false pr Cr Er) as [lr [Lr Vr]].
    destruct (node_dict_facts _ _ _ Ev) as [s [Ty [Ns [_ Rn]]]].
    destruct (type_flags _ _ Ty Ns) as [F1 F2].
    destruct (type_flags _ _ (dget_app_some load_defaults _ _ _ Ty) Ns) as [G1 G2].
    exists (LNode V (load_defaults ++ e) "left" ll "right" lr).
    split.
    + cbn [XV.Model.StateDict.load]. rewrite F1, F2. cbn [negb orb]. rewrite CC. cbn [negb].
      rewrite Ll, Lr. reflexivity.
    + cbn [XV.Model.StateDict.view_l XV.Model.StateDict.view_f]. rewrite G1, G2. cbn [negb orb].
      rewrite !String.eqb_refl. cbn [andb]. rewrite Vl, Vr, Rn. reflexivity.
Qed.

(* ------------------------------------------------------------------ *)
(* (2) the round trip through load_root                                *)
(* ------------------------------------------------------------------ *)
Lemma export_root_flag : forall t p, export true t = Some p -> load_root p = load p.
Proof.
  intros t p E. destruct t as [d attrs | d l r]; cbn [XV.Model.StateDict.export] in E.
  - destruct (eval_entries exp_leaf d attrs true) as [e|] eqn:Ev; [|discriminate E].
    inversion E; subst p. clear E.
    destruct (leaf_dict_facts _ _ _ _ Ev) as [_ [Hr _]].
    unfold XV.Model.StateDict.load_root. rewrite Hr. reflexivity.
  - destruct (eval_entries exp_node d [] true) as [e|] eqn:Ev; [|discriminate E].
    destruct (child_key exp_node "left") as [kl|]; [|discriminate E].
    destruct (child_key exp_node "right") as [kr|]; [|discriminate E].
    destruct (export false l) as [pl|]; [|discriminate E].
    destruct (export false r) as [pr|]; [|discriminate E].
    inversion E; subst p. clear E.
    destruct (node_dict_facts _ _ _ Ev) as [s [_ [_ [Hr _]]]].
    unfold XV.Model.StateDict.load_root. rewrite Hr. reflexivity.
Qed.

Theorem roundtrip_view : forall t p, centers_ok t -> export true t = Some p ->
  exists lt, load_root p = Some lt /\ view_l lt = Some (view_f t).
Proof.
  intros t p C E. rewrite (export_root_flag _ _ E). apply (roundtrip_view_gen t true p C E).
Qed.

(* ------------------------------------------------------------------ *)
(* (3) a loaded tree is a fitted tree again                            *)
(* ------------------------------------------------------------------ *)
Lemma view_l_to_f : forall lt v, view_l lt = Some v -> view_f (to_f lt) = v.
Proof.
  induction lt as [d attrs | d kl l IHl kr r IHr]; intros v H; cbn [XV.Model.StateDict.view_l] in H.
  - destruct (is_leaf_dict d); [|discriminate H]. inversion H. reflexivity.
  - destruct (is_leaf_dict d || negb (has_type d)); [discriminate H|].
    destruct (String.eqb kl "left" && String.eqb kr "right"); [|discriminate H].
    destruct (view_l l) as [a|]; [|discriminate H].
    destruct (view_l r) as [c|]; [|discriminate H].
    inversion H. cbn [XV.Model.StateDict.to_f XV.Model.StateDict.view_f].
    rewrite (IHl a eq_refl), (IHr c eq_refl). reflexivity.
Qed.

(* whatever the loader returns has its centres gathered from its own index list *)
Lemma load_centers_ok : forall p lt, load p = Some lt -> centers_ok (to_f lt).
Proof.
  induction p as [d | d kl l IHl kr r IHr]; intros lt H; cbn [XV.Model.StateDict.load] in H.
  - destruct (is_leaf_dict d); [|discriminate H].
    destruct (load_attrs load_leaf d) as [at_|]; [|discriminate H].
    destruct (dget d centers_key) as [[x|idx|x|x]|] eqn:G; try discriminate H.
    inversion H; subst lt. clear H.
    cbn [XV.Model.StateDict.to_f XV.Model.StateDict.centers_ok].
    exists idx. rewrite ok_centers_key in G. split; [exact G|].
    apply dget_app_some. apply dget_single_same.
  - destruct (negb (has_type d) || is_leaf_dict d); [discriminate H|].
    match type of H with (if negb ?c then _ else _) = _ => destruct c end; [|discriminate H].
    cbn [negb] in H.
    destruct (load l) as [ll|] eqn:Ll; [|discriminate H].
    destruct (load r) as [lr|] eqn:Lr; [|discriminate H].
    inversion H; subst lt. clear H.
    cbn [XV.Model.StateDict.to_f XV.Model.StateDict.centers_ok]. split; [apply (IHl _ eq_refl) | apply (IHr _ eq_refl)].
Qed.

Theorem loaded_is_fitted_again : forall t b p lt, centers_ok t -> export b t = Some p -> load p = Some lt ->
  centers_ok (to_f lt) /\ view_f (to_f lt) = view_f t.
Proof.
  intros t b p lt C E L. split.
  - apply (load_centers_ok p lt L).
  - destruct (roundtrip_view_gen t b p C E) as [lt' [L' Vw]].
    rewrite L in L'. inversion L'; subst lt'. apply view_l_to_f. exact Vw.
Qed.

(* ------------------------------------------------------------------ *)
(* (4) load of a load                                                  *)
(* ------------------------------------------------------------------ *)
Theorem roundtrip_twice : forall t p lt p2, centers_ok t -> export true t = Some p -> load_root p = Some lt ->
  export true (to_f lt) = Some p2 ->
  exists lt2, load_root p2 = Some lt2 /\ view_l lt2 = Some (view_f t).
Proof.
  intros t p lt p2 C E L E2.
  rewrite (export_root_flag _ _ E) in L.
  destruct (loaded_is_fitted_again t true p lt C E L) as [C2 V2].
  rewrite <- V2. apply (roundtrip_view (to_f lt) p2 C2 E2).
Qed.

(* ------------------------------------------------------------------ *)
(* (5) export does not raise on well-formed fitted trees               *)
(* ------------------------------------------------------------------ *)
Lemma entries_present_eval : forall tbl d attrs b,
  entries_present tbl d attrs = true -> exists e, eval_entries tbl d attrs b = Some e.
Proof.
  induction tbl as [|[k s] r IH]; intros d attrs b H.
  - exists []. reflexivity.
  - cbn [XV.Model.StateDict.entries_present] in H. apply andb_prop in H. destruct H as [Hr Hs].
    destruct (IH d attrs b Hr) as [rest Er].
    cbn [XV.Model.StateDict.eval_entries]. rewrite Er.
    destruct s as [src dflt|p|c| |src].
    + destruct (dget_default d src dflt) as [v|]; [|discriminate Hs]. eexists. reflexivity.
    + destruct (dget attrs p) as [v|]; [|discriminate Hs]. eexists. reflexivity.
    + eexists. reflexivity.
    + eexists. reflexivity.
    + eexists. reflexivity.
Qed.

Theorem export_total : forall t b, wf_f t = true -> exists p, export b t = Some p.
Proof.
  induction t as [d attrs | d l IHl r IHr]; intros b W; cbn [XV.Model.StateDict.wf_f] in W.
  - destruct (entries_present_eval _ _ _ b W) as [e Ev].
    exists (PLeaf V e). cbn [XV.Model.StateDict.export]. rewrite Ev. reflexivity.
  - apply andb_prop in W. destruct W as [W Wr]. apply andb_prop in W. destruct W as [Wd Wl].
    destruct (entries_present_eval _ _ _ b Wd) as [e Ev].
    destruct (IHl false Wl) as [pl El]. destruct (IHr false Wr) as [pr Er].
    destruct ok_children as [CL [CR _]].
    exists (PNode V e "left" pl "right" pr).
    cbn [XV.Model.StateDict.export]. rewrite Ev, CL, CR, El, Er. reflexivity.
Qed.

(* ------------------------------------------------------------------ *)
(* (6) the loaded tree can be exported again                           *)
(* ------------------------------------------------------------------ *)
(* (6) is FALSE under tables_okb alone (see Ex.extra_second_export_fails below: a leaf entry ("foo", EKey "extra" None)
   reads a fitted key that the export does not write back, so the second export raises KeyError).
   reexport_okb: every source that export reads WITHOUT a default is present in what the loader produces:
   - a leaf key read as tree[src] must be one of the keys the leaf export writes (the loaded leaf dict IS the exported dict);
   - a leaf attribute must be "centers" or one of the attributes the loader sets;
   - a node key read as tree[src] must be written by the node export or be one of the loader's setdefault keys.
   (EKey with a default never raises; EAttr in the node table cannot occur when the first export succeeded on a node.) *)
Definition reexport_okb : bool :=
  forallb (fun ke : string * esrc V =>
             match snd ke with
             | EKey _ src None => existsb (String.eqb src) (plain_dst_keys exp_leaf)
             | EAttr _ p => String.eqb p "centers" || existsb (String.eqb p) (map fst load_leaf)
             | _ => true
             end) exp_leaf
  && forallb (fun ke : string * esrc V =>
             match snd ke with
             | EKey _ src None => existsb (String.eqb src) (plain_dst_keys exp_node)
                                  || existsb (String.eqb src) (map fst load_defaults)
             | _ => true
             end) exp_node.

Lemma eval_total : forall tbl d attrs b,
  (forall k src, In (k, EKey V src None) tbl -> exists v, dget d src = Some v) ->
  (forall k p, In (k, EAttr V p) tbl -> exists v, dget attrs p = Some v) ->
  exists e, eval_entries tbl d attrs b = Some e.
Proof.
  induction tbl as [|[k s] r IH]; intros d attrs b HK HA.
  - exists []. reflexivity.
  - destruct (IH d attrs b) as [rest Er].
    { intros k' src Hin. apply (HK k' src). right. exact Hin. }
    { intros k' p Hin. apply (HA k' p). right. exact Hin. }
    cbn [XV.Model.StateDict.eval_entries]. rewrite Er.
    destruct s as [src [a|]|p|c| |src].
    + unfold XV.Model.StateDict.dget_default. destruct (dget d src) as [w|]; eexists; reflexivity.
    + destruct (HK k src) as [v Hv]. { left. reflexivity. }
      unfold XV.Model.StateDict.dget_default. rewrite Hv. eexists. reflexivity.
    + destruct (HA k p) as [v Hv]. { left. reflexivity. }
      rewrite Hv. eexists. reflexivity.
    + eexists. reflexivity.
    + eexists. reflexivity.
    + eexists. reflexivity.
Qed.

Lemma eval_attr_present : forall tbl d attrs b e k p,
  eval_entries tbl d attrs b = Some e -> In (k, EAttr V p) tbl -> exists v, dget attrs p = Some v.
Proof.
  induction tbl as [|[k' s] r IH]; intros d attrs b e k p H Hin.
  - destruct Hin.
  - destruct (eval_cons_inv _ _ _ _ _ _ _ H) as [rest [Hr Hc]].
    destruct Hin as [Heq | Hin].
    + inversion Heq; subst k' s.
      destruct Hc as [[C _] | [_ [v [Hv _]]]]; [discriminate C|].
      exists v. exact Hv.
    + apply (IH _ _ _ _ _ _ Hr Hin).
Qed.

Theorem second_export_total : forall t b p lt, reexport_okb = true ->
  centers_ok t -> export b t = Some p -> load p = Some lt -> exists p2, export b (to_f lt) = Some p2.
Proof.
  intros t b p lt R. apply andb_prop in R. destruct R as [RL RN].
  rewrite forallb_forall in RL. rewrite forallb_forall in RN.
  revert b p lt.
  induction t as [d attrs | d l IHl r IHr]; intros b p lt C E L.
  - cbn [XV.Model.StateDict.export] in E.
    destruct (eval_entries exp_leaf d attrs b) as [e|] eqn:Ev; [|discriminate E].
    inversion E; subst p. clear E.
    destruct C as [idx [Hi Hc]].
    destruct (leaf_dict_facts _ _ _ _ Ev) as [Hl [_ [Ht [at_ Ha]]]].
    rewrite Hi in Ht.
    rewrite (load_leaf_eq _ _ _ Hl Ha Ht) in L. inversion L; subst lt. clear L.
    cbn [XV.Model.StateDict.to_f XV.Model.StateDict.export].
    destruct (eval_total exp_leaf e (at_ ++ [("centers", gather idx)]) b) as [e2 Ev2].
    + intros k src Hin. specialize (RL _ Hin). cbn [snd] in RL.
      apply (eval_dget_dst _ _ _ _ _ _ Ev RL).
    + intros k q Hin. specialize (RL _ Hin). cbn [snd] in RL.
      apply orb_prop in RL. destruct RL as [Q | Q].
      * apply String.eqb_eq in Q. subst q. exists (gather idx).
        apply dget_app_some. apply dget_single_same.
      * apply dget_in_keys. rewrite map_app. apply existsb_app_l.
        rewrite (load_attrs_keys _ _ _ Ha). exact Q.
    + rewrite Ev2. eexists. reflexivity.
  - destruct ok_children as [CL [CR CC]].
    cbn [XV.Model.StateDict.export] in E. rewrite CL, CR in E.
    destruct (eval_entries exp_node d [] b) as [e|] eqn:Ev; [|discriminate E].
    destruct (export false l) as [pl|] eqn:El; [|discriminate E].
    destruct (export false r) as [pr|] eqn:Er; [|discriminate E].
    inversion E; subst p. clear E.
    destruct C as [Cl Cr].
    cbn [XV.Model.StateDict.load] in L.
    destruct (negb (has_type e) || is_leaf_dict e); [discriminate L|].
    rewrite CC in L. cbn [negb] in L.
    destruct (load pl) as [ll|] eqn:Ll; [|discriminate L].
    destruct (load pr) as [lr|] eqn:Lr; [|discriminate L].
    inversion L; subst lt. clear L.
    destruct (IHl false pl ll Cl El Ll) as [pl2 El2].
    destruct (IHr false pr lr Cr Er Lr) as [pr2 Er2].
    cbn [XV.Model.StateDict.to_f XV.Model.StateDict.export]. rewrite CL, CR, El2, Er2.
    unfold XV.Model.StateDict.apply_defaults.
    destruct (eval_total exp_node (load_defaults ++ e) [] b) as [e2 Ev2].
    + intros k src Hin. specialize (RN _ Hin). cbn [snd] in RN.
      apply dget_in_keys. rewrite map_app. rewrite (eval_keys _ _ _ _ _ Ev).
      apply orb_prop in RN. destruct RN as [Q | Q].
      * apply existsb_app_r. exact Q.
      * apply existsb_app_l. exact Q.
    + intros k q Hin. apply (eval_attr_present _ _ _ _ _ _ _ Ev Hin).
    + rewrite Ev2. eexists. reflexivity.
Qed.

End Proofs.

(* ================================================================== *)
(* (7) the tables of the real code (T.v), V := Z                       *)
(* ================================================================== *)
From Coq Require Import ZArith.

Module Ex.
Definition V := Z.
Definition exp_leaf : etable V := [("type", EConst _ (PStr _ "leaf")); ("bandwidth", EAttr _ "kernel_obj.bandwidth"); ("weights", EAttr _ "weights"); ("M", EAttr _ "M"); ("sqrtM", EAttr _ "sqrtM"); ("train_indices", EKey _ "train_indices" None); ("is_root", EIsRoot _)].
Definition exp_node : etable V := [("type", EConst _ (PStr _ "node")); ("split_direction", EKey _ "split_direction" None); ("split_point", EKey _ "split_point" None); ("adaptive_temp_scaling", EKey _ "adaptive_temp_scaling" (Some (PV _ 1%Z))); ("left", EChild _ "left"); ("right", EChild _ "right"); ("is_root", EIsRoot _)].
Definition load_leaf := [("kernel_obj.bandwidth","bandwidth"); ("weights","weights"); ("M","M"); ("sqrtM","sqrtM")].
Definition load_defaults : dict V := [("adaptive_temp_scaling", PV _ 1%Z)].
Definition load_children := ["left"; "right"].
Definition centers_key := "train_indices".
Definition pred_node_keys : list (string * option (pval V)) := [("split_direction", None); ("split_point", None); ("adaptive_temp_scaling", Some (PV _ 1%Z))].
Definition pred_leaf_attrs := ["kernel_obj.bandwidth"; "weights"; "M"; "sqrtM"; "centers"].
Definition gather (l : list nat) : pval V := PV _ (Z.of_nat (fold_right plus 0 l)).
Definition lf (i : list nat) (b : Z) : ftree V := FLeaf _ [("type", PStr _ "leaf"); ("train_indices", PIdx _ i); ("extra", PBool _ true)] [("kernel_obj.bandwidth", PV _ b); ("weights", PV _ 5%Z); ("M", PV _ 6%Z); ("sqrtM", PV _ 7%Z); ("centers", gather i)].
Definition t0 : ftree V := FNode _ [("type", PStr _ "node"); ("split_direction", PV _ 11%Z); ("split_point", PV _ 12%Z)] (lf [1;2] 3%Z) (FNode _ [("type", PStr _ "node"); ("split_direction", PV _ 21%Z); ("split_point", PV _ 22%Z); ("adaptive_temp_scaling", PV _ 9%Z)] (lf [0] 4%Z) (lf [3;4;5] 8%Z)).

Local Notation okb := (tables_okb V Z.eqb exp_leaf exp_node load_leaf load_children centers_key pred_node_keys pred_leaf_attrs).
Local Notation export := (export V exp_leaf exp_node).
Local Notation load := (load V load_leaf load_defaults load_children centers_key gather).
Local Notation load_root := (load_root V load_leaf load_defaults load_children centers_key gather).
Local Notation view_f := (view_f V pred_node_keys pred_leaf_attrs).
Local Notation view_l := (view_l V pred_node_keys pred_leaf_attrs).

Lemma Zeqb_sound : forall x y : Z, Z.eqb x y = true -> x = y.
Proof. intros x y H. apply Z.eqb_eq. exact H. Qed.

Example tables_ok : okb = true.
Proof. vm_compute. reflexivity. Qed.

Example reexport_ok : reexport_okb V exp_leaf exp_node load_leaf load_defaults = true.
Proof. vm_compute. reflexivity. Qed.

Example t0_centers_ok : centers_ok V gather t0.
Proof.
  cbn [centers_ok t0 lf]. repeat split.
  - exists [1;2]. split; reflexivity.
  - exists [0]. split; reflexivity.
  - exists [3;4;5]. split; reflexivity.
Qed.

Example t0_wf : wf_f V exp_leaf exp_node t0 = true.
Proof. vm_compute. reflexivity. Qed.

(* the exported tree, the loaded tree, the re-exported tree, computed *)
Definition p0 : ptree V := Eval vm_compute in match export true t0 with Some p => p | None => PLeaf _ [] end.
Definition lt0 : ltree V := Eval vm_compute in match load_root p0 with Some l => l | None => LLeaf _ [] [] end.
Definition p1 : ptree V := Eval vm_compute in match export true (to_f V lt0) with Some p => p | None => PLeaf _ [] end.

Example export_t0 : export true t0 = Some p0.
Proof. vm_compute. reflexivity. Qed.
Example load_p0 : load_root p0 = Some lt0.
Proof. vm_compute. reflexivity. Qed.
Example load_p0' : load p0 = Some lt0.
Proof. vm_compute. reflexivity. Qed.
Example export_lt0 : export true (to_f V lt0) = Some p1.
Proof. vm_compute. reflexivity. Qed.

(* the conclusion of roundtrip_view, computed *)
Example roundtrip_t0_computed : load_root p0 = Some lt0 /\ view_l lt0 = Some (view_f t0).
Proof. split; vm_compute; reflexivity. Qed.

Example view_t0 :
  view_f t0 =
  VNode V [Some (PV V 11%Z); Some (PV V 12%Z); Some (PV V 1%Z)]
    (VLeaf V [Some (PV V 3%Z); Some (PV V 5%Z); Some (PV V 6%Z); Some (PV V 7%Z); Some (PV V 3%Z)])
    (VNode V [Some (PV V 21%Z); Some (PV V 22%Z); Some (PV V 9%Z)]
       (VLeaf V [Some (PV V 4%Z); Some (PV V 5%Z); Some (PV V 6%Z); Some (PV V 7%Z); Some (PV V 0%Z)])
       (VLeaf V [Some (PV V 8%Z); Some (PV V 5%Z); Some (PV V 6%Z); Some (PV V 7%Z); Some (PV V 12%Z)])).
Proof. vm_compute. reflexivity. Qed.

(* the theorems instantiated: their hypotheses are satisfiable on a non-trivial instance *)
Example roundtrip_view_gen_t0 : exists lt, load p0 = Some lt /\ view_l lt = Some (view_f t0).
Proof. exact (roundtrip_view_gen V Z.eqb exp_leaf exp_node load_leaf load_defaults load_children centers_key gather
                pred_node_keys pred_leaf_attrs Zeqb_sound tables_ok t0 true p0 t0_centers_ok export_t0). Qed.

Example roundtrip_view_t0 : exists lt, load_root p0 = Some lt /\ view_l lt = Some (view_f t0).
Proof. exact (roundtrip_view V Z.eqb exp_leaf exp_node load_leaf load_defaults load_children centers_key gather
                pred_node_keys pred_leaf_attrs Zeqb_sound tables_ok t0 p0 t0_centers_ok export_t0). Qed.

Example loaded_is_fitted_again_t0 : centers_ok V gather (to_f V lt0) /\ view_f (to_f V lt0) = view_f t0.
Proof. exact (loaded_is_fitted_again V Z.eqb exp_leaf exp_node load_leaf load_defaults load_children centers_key gather
                pred_node_keys pred_leaf_attrs Zeqb_sound tables_ok t0 true p0 lt0 t0_centers_ok export_t0 load_p0'). Qed.

Example roundtrip_twice_t0 : exists lt2, load_root p1 = Some lt2 /\ view_l lt2 = Some (view_f t0).
Proof. exact (roundtrip_twice V Z.eqb exp_leaf exp_node load_leaf load_defaults load_children centers_key gather
                pred_node_keys pred_leaf_attrs Zeqb_sound tables_ok t0 p0 lt0 p1 t0_centers_ok export_t0 load_p0 export_lt0). Qed.

Example export_total_t0 : forall b, exists p, export b t0 = Some p.
Proof. intro b. exact (export_total V Z.eqb exp_leaf exp_node load_leaf load_children centers_key
                pred_node_keys pred_leaf_attrs tables_ok t0 b t0_wf). Qed.

Example second_export_total_t0 : exists p2, export true (to_f V lt0) = Some p2.
Proof. exact (second_export_total V Z.eqb exp_leaf exp_node load_leaf load_defaults load_children centers_key gather
                pred_node_keys pred_leaf_attrs tables_ok t0 true p0 lt0 reexport_ok t0_centers_ok export_t0 load_p0'). Qed.

(* ================================================================== *)
(* (8) NEGATIVE: the node export fills "split_point" from the wrong key *)
(* ================================================================== *)
Definition exp_node_bad : etable V := [("type", EConst _ (PStr _ "node")); ("split_direction", EKey _ "split_direction" None); ("split_point", EKey _ "split_direction" None); ("adaptive_temp_scaling", EKey _ "adaptive_temp_scaling" (Some (PV _ 1%Z))); ("left", EChild _ "left"); ("right", EChild _ "right"); ("is_root", EIsRoot _)].

Example bad_tables_not_ok :
  tables_okb V Z.eqb exp_leaf exp_node_bad load_leaf load_children centers_key pred_node_keys pred_leaf_attrs = false.
Proof. vm_compute. reflexivity. Qed.

Definition bad_view : option (vtree V) :=
  match XV.Model.StateDict.export V exp_leaf exp_node_bad true t0 with
  | Some p => match load_root p with Some lt => view_l lt | None => None end
  | None => None
  end.

(* export and load both succeed, but prediction would read split_point = 11 (resp. 21) instead of 12 (resp. 22) *)
Example bad_view_value :
  bad_view = Some
  (VNode V [Some (PV V 11%Z); Some (PV V 11%Z); Some (PV V 1%Z)]
    (VLeaf V [Some (PV V 3%Z); Some (PV V 5%Z); Some (PV V 6%Z); Some (PV V 7%Z); Some (PV V 3%Z)])
    (VNode V [Some (PV V 21%Z); Some (PV V 21%Z); Some (PV V 9%Z)]
       (VLeaf V [Some (PV V 4%Z); Some (PV V 5%Z); Some (PV V 6%Z); Some (PV V 7%Z); Some (PV V 0%Z)])
       (VLeaf V [Some (PV V 8%Z); Some (PV V 5%Z); Some (PV V 6%Z); Some (PV V 7%Z); Some (PV V 12%Z)]))).
Proof. vm_compute. reflexivity. Qed.

Example bad_view_differs : bad_view <> Some (view_f t0).
Proof. vm_compute. intro H. discriminate H. Qed.

(* ================================================================== *)
(* why (1) needs the extra conjunct of tables_okb: a loader key that export never writes *)
(* ================================================================== *)
Definition load_leaf_bad := [("kernel_obj.bandwidth","bandwidth"); ("weights","weights"); ("M","M"); ("sqrtM","sqrtM"); ("solver_state","alphas")].

Example loader_key_missing_load_fails :
  match export true (lf [1;2] 3%Z) with
  | Some p => XV.Model.StateDict.load V load_leaf_bad load_defaults load_children centers_key gather p
  | None => None
  end = None.
Proof. vm_compute. reflexivity. Qed.

Example loader_key_missing_not_ok :
  tables_okb V Z.eqb exp_leaf exp_node load_leaf_bad load_children centers_key pred_node_keys pred_leaf_attrs = false.
Proof. vm_compute. reflexivity. Qed.

(* ================================================================== *)
(* why (6) needs reexport_okb: tables_okb holds, the first export and the load succeed, the second export raises *)
(* ================================================================== *)
Definition exp_leaf_extra : etable V := ("foo", EKey _ "extra" None) :: exp_leaf.

Example extra_tables_ok :
  tables_okb V Z.eqb exp_leaf_extra exp_node load_leaf load_children centers_key pred_node_keys pred_leaf_attrs = true.
Proof. vm_compute. reflexivity. Qed.

Example extra_reexport_not_ok : reexport_okb V exp_leaf_extra exp_node load_leaf load_defaults = false.
Proof. vm_compute. reflexivity. Qed.

Example extra_second_export_fails :
  match XV.Model.StateDict.export V exp_leaf_extra exp_node true t0 with
  | Some p => match load_root p with
              | Some lt => Some (XV.Model.StateDict.export V exp_leaf_extra exp_node true (to_f V lt))
              | None => None
              end
  | None => None
  end = Some None.
Proof. vm_compute. reflexivity. Qed.
End Ex.

Check roundtrip_view_gen.
Check roundtrip_view.
Check loaded_is_fitted_again.
Check roundtrip_twice.
Check export_total.
Check second_export_total.
Print Assumptions roundtrip_view_gen.
Print Assumptions roundtrip_view.
Print Assumptions loaded_is_fitted_again.
Print Assumptions roundtrip_twice.
Print Assumptions export_total.
Print Assumptions second_export_total.
Print Assumptions Ex.roundtrip_view_t0.
Print Assumptions Ex.second_export_total_t0.
