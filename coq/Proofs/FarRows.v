(* P8 - "rows far from all the training data get the training class frequencies", quantitatively, over Q.

   In 'prevalence' mode the decoded, unclamped probabilities of a raw prediction vector num (length K-1) are
       raw_prevalence invA num = map (fun row => dot (num ++ [1]) row) invA,
   an affine map of num whose constant term is the last column of invA (the prior = the training class frequencies).
   The raw prediction of a kernel model at x is sum_i alpha_i K(x, c_i); each entry is bounded by delta = W * kmax with
   W = sum |alpha| and kmax = max_i K(x, c_i), which tends to 0 for rows far from every centre.  The theorems below
   bound, by an explicit multiple of delta, the distance of the decoded probability row from the decoded prior row.

   No axioms: everything is over Q with Qeq / Qle. *)
From Coq Require Import QArith Qabs List Bool Arith Lia Lqa.
Require Import XV.Model.Tree XV.Model.Soft XV.Model.Labels XV.Proofs.SoftProofs XV.Proofs.LabelsProofs.
Import ListNotations.
Local Open Scope Q_scope.

(* ---------------------------------------------------------------------------------------------------------------- *)
(* Qabs helpers                                                                                                     *)
(* ---------------------------------------------------------------------------------------------------------------- *)
Lemma Qabs_spec (x : Q) : (0 <= x /\ Qabs x == x) \/ (x <= 0 /\ Qabs x == - x).
Proof.
  destruct (Qlt_le_dec x 0) as [H|H].
  - right. split; [lra|]. apply Qabs_neg. lra.
  - left. split; [exact H|]. apply Qabs_pos. exact H.
Qed.

(* replace every |t| by a fresh variable together with its defining case split, then call lra *)
Ltac qabs_elim :=
  repeat match goal with
         | |- context [Qabs ?x] =>
             let A := fresh "ab" in
             destruct (Qabs_spec x) as [[? ?]|[? ?]]; set (A := Qabs x) in *; clearbody A
         | H : context [Qabs ?x] |- _ =>
             let A := fresh "ab" in
             destruct (Qabs_spec x) as [[? ?]|[? ?]]; set (A := Qabs x) in *; clearbody A
         end.
Ltac qabs_lra := qabs_elim; lra.

Lemma inject_nat_nonneg (n : nat) : 0 <= inject_Z (Z.of_nat n).
Proof. change 0 with (inject_Z 0). rewrite <- Zle_Qle. lia. Qed.

Lemma inject_nat_succ (n : nat) : inject_Z (Z.of_nat (S n)) == inject_Z (Z.of_nat n) + 1.
Proof. rewrite Nat2Z.inj_succ. unfold Z.succ. rewrite inject_Z_plus. change (inject_Z 1) with 1. lra. Qed.

(* ---------------------------------------------------------------------------------------------------------------- *)
(* dot                                                                                                              *)
(* ---------------------------------------------------------------------------------------------------------------- *)
(* [num, 1] . row = num . row + row[K-1]   (no shape hypothesis needed: dot truncates, nth overflows to 0) *)
Lemma dot_app1 (num : list Q) : forall row, dot (num ++ [1]) row == dot num row + nth (length num) row 0.
Proof.
  induction num as [|a num IH]; intros [|b row]; cbn [app dot length nth]; try lra.
  rewrite (IH row). lra.
Qed.

Lemma dot_firstn (num : list Q) : forall row, dot num (firstn (length num) row) = dot num row.
Proof.
  induction num as [|a num IH]; intros [|b row]; cbn [length firstn dot]; try reflexivity.
  rewrite (IH row). reflexivity.
Qed.

Lemma dot_repeat0 (k : nat) : forall row, dot (repeat 0 k) row == 0.
Proof.
  induction k as [|k IH]; intros [|b row]; cbn [repeat dot]; try lra. rewrite (IH row). lra.
Qed.

(* Hoelder (l_inf, l_1)-type bound, with the l_1 norm of the row bounded by (number of entries) * (max entry) *)
Lemma dot_abs_bound (delta B : Q) : 0 <= delta -> 0 <= B ->
  forall num row, (forall j, Qabs (nth j num 0) <= delta) -> (forall j, Qabs (nth j row 0) <= B) ->
  Qabs (dot num row) <= inject_Z (Z.of_nat (length num)) * B * delta.
Proof.
  intros Hd HB. induction num as [|a num IH]; intros row Hn Hr.
  - cbn [dot length]. change (inject_Z (Z.of_nat 0)) with 0. cbn [Qabs Z.abs Qnum Qden]. lra.
  - assert (Hnn : 0 <= inject_Z (Z.of_nat (length num)) * B * delta).
    { apply Qmult_le_0_compat; [apply Qmult_le_0_compat; [apply inject_nat_nonneg|exact HB]|exact Hd]. }
    destruct row as [|b row].
    + cbn [dot]. cbn [length]. rewrite inject_nat_succ. change (Qabs 0) with 0.
      assert (0 <= B * delta) by (apply Qmult_le_0_compat; assumption). lra.
    + cbn [dot length]. rewrite inject_nat_succ.
      assert (Ha : Qabs a <= delta) by (apply (Hn O)).
      assert (Hb : Qabs b <= B) by (apply (Hr O)).
      assert (IH' : Qabs (dot num row) <= inject_Z (Z.of_nat (length num)) * B * delta).
      { apply IH; [intros j; apply (Hn (S j))|intros j; apply (Hr (S j))]. }
      assert (Hab : Qabs (a * b) <= B * delta).
      { rewrite Qabs_Qmult. apply Qle_trans with (delta * Qabs b).
        - apply Qmult_le_compat_r; [exact Ha|apply Qabs_nonneg].
        - rewrite (Qmult_comm B delta). rewrite !(Qmult_comm delta). apply Qmult_le_compat_r; assumption. }
      eapply Qle_trans; [apply Qabs_triangle|]. lra.
Qed.

(* ---------------------------------------------------------------------------------------------------------------- *)
(* F1, F2, F3 : the unclamped decoder                                                                               *)
(* ---------------------------------------------------------------------------------------------------------------- *)
Lemma nth_raw_prevalence (invA : list (list Q)) (num : list Q) (i : nat) : (i < length invA)%nat ->
  nth i (raw_prevalence invA num) 0 = dot (num ++ [1]) (nth i invA []).
Proof. intros Hi. unfold raw_prevalence. apply (nth_map_gen _ [] 0 i invA Hi). Qed.

(* F1.  (The shape hypothesis is kept as in the specification; the proof does not use it.) *)
Theorem raw_prevalence_affine : forall invA num, Forall (fun row => length row = S (length num)) invA ->
  forall i, (i < length invA)%nat ->
  nth i (raw_prevalence invA num) 0 == dot num (firstn (length num) (nth i invA [])) + nth (length num) (nth i invA []) 0.
Proof.
  intros invA num _ i Hi. rewrite (nth_raw_prevalence invA num i Hi), dot_firstn. apply dot_app1.
Qed.

(* F2.  The zero raw prediction decodes to the last column of invA: the prior. *)
Theorem raw_prevalence_zero : forall invA k, Forall (fun row => length row = S k) invA ->
  forall i, (i < length invA)%nat ->
  nth i (raw_prevalence invA (repeat 0 k)) 0 == nth k (nth i invA []) 0.
Proof.
  intros invA k _ i Hi. rewrite (nth_raw_prevalence invA _ i Hi), dot_app1, dot_repeat0, repeat_length. lra.
Qed.

(* F3.  Lipschitz: raw predictions of size <= delta decode to within (K-1) * B * delta of the prior. *)
Theorem raw_prevalence_near_prior : forall invA num delta B,
  Forall (fun row => length row = S (length num)) invA ->
  (forall j, Qabs (nth j num 0) <= delta) ->
  (forall i j, Qabs (nth j (nth i invA []) 0) <= B) ->
  0 <= delta -> 0 <= B ->
  forall i, (i < length invA)%nat ->
  Qabs (nth i (raw_prevalence invA num) 0 - nth (length num) (nth i invA []) 0)
    <= inject_Z (Z.of_nat (length num)) * B * delta.
Proof.
  intros invA num delta B _ Hn HA Hd HB i Hi.
  rewrite (nth_raw_prevalence invA num i Hi), dot_app1.
  setoid_replace (dot num (nth i invA []) + nth (length num) (nth i invA []) 0 - nth (length num) (nth i invA []) 0)
    with (dot num (nth i invA [])) by lra.
  apply dot_abs_bound; [exact Hd|exact HB|exact Hn|exact (HA i)].
Qed.

(* ---------------------------------------------------------------------------------------------------------------- *)
(* F4 : torch.clamp is 1-Lipschitz                                                                                  *)
(* ---------------------------------------------------------------------------------------------------------------- *)
Theorem qclamp_lipschitz : forall lo hi x y, lo <= hi -> Qabs (qclamp lo hi x - qclamp lo hi y) <= Qabs (x - y).
Proof.
  intros lo hi x y H. unfold qclamp.
  destruct (Qle_bool x lo) eqn:A1; destruct (Qle_bool y lo) eqn:B1;
  destruct (Qle_bool hi x) eqn:A2; destruct (Qle_bool hi y) eqn:B2;
  repeat match goal with
         | H : Qle_bool _ _ = true |- _ => apply Qle_bool_iff in H
         | H : Qle_bool ?a ?b = false |- _ =>
             assert (b < a) by (apply Qnot_le_lt; intros Hc; apply Qle_bool_iff in Hc; congruence); clear H
         end; qabs_lra.
Qed.

(* ---------------------------------------------------------------------------------------------------------------- *)
(* F5 : normalisation is Lipschitz on vectors bounded below by eps                                                  *)
(* ---------------------------------------------------------------------------------------------------------------- *)
Definition l1dist (u v : list Q) : Q := qsum (map (fun p => Qabs (fst p - snd p)) (combine u v)).

Lemma l1dist_nonneg : forall u v, 0 <= l1dist u v.
Proof.
  intros u v. unfold l1dist. apply qsum_nonneg. apply Forall_forall. intros x Hx.
  apply in_map_iff in Hx. destruct Hx as [p [<- _]]. apply Qabs_nonneg.
Qed.

Lemma qsum_diff_abs : forall u v, length u = length v -> Qabs (qsum u - qsum v) <= l1dist u v.
Proof.
  unfold l1dist. induction u as [|x u IH]; intros [|y v] Hl; try discriminate.
  - cbn in Hl. injection Hl as Hl. specialize (IH v Hl). cbn [qsum combine map fst snd].
    set (S := qsum (map (fun p => Qabs (fst p - snd p)) (combine u v))) in *. clearbody S.
    set (su := qsum u) in *. set (sv := qsum v) in *. clearbody su sv. qabs_lra.
Qed.

Lemma l1dist_uniform (d : Q) : forall u v, length u = length v ->
  (forall j, (j < length u)%nat -> Qabs (nth j u 0 - nth j v 0) <= d) ->
  l1dist u v <= inject_Z (Z.of_nat (length u)) * d.
Proof.
  unfold l1dist. induction u as [|x u IH]; intros [|y v] Hl Hd; try discriminate.
  - cbn in Hl. injection Hl as Hl. cbn [qsum combine map fst snd length]. rewrite inject_nat_succ.
    assert (H0 : Qabs (x - y) <= d) by (apply (Hd O); cbn; lia).
    assert (IH' : qsum (map (fun p => Qabs (fst p - snd p)) (combine u v)) <= inject_Z (Z.of_nat (length u)) * d).
    { apply IH; [exact Hl|]. intros j Hj. apply (Hd (S j)). cbn. lia. }
    lra.
Qed.

Lemma nth_in_Forall {P : Q -> Prop} (l : list Q) (i : nat) : Forall P l -> (i < length l)%nat -> P (nth i l 0).
Proof. intros H Hi. rewrite Forall_forall in H. apply H. apply nth_In. exact Hi. Qed.

(* scalar core of F5 *)
Lemma ratio_diff_bound (a b su sv S : Q) :
  0 < su -> 0 < sv -> 0 <= b -> b <= sv -> Qabs (su - sv) <= S ->
  Qabs (a / su - b / sv) <= (Qabs (a - b) + S) / su.
Proof.
  intros Hsu Hsv Hb0 Hb HS.
  set (t := b / sv).
  assert (Ht0 : 0 <= t) by (apply Qle_shift_div_l; [exact Hsv|lra]).
  assert (Ht1 : t <= 1) by (apply Qle_shift_div_r; [exact Hsv|lra]).
  assert (E : a / su - t == ((a - b) + t * (sv - su)) * / su) by (unfold t; field; lra).
  rewrite E. rewrite Qabs_Qmult. rewrite (Qabs_pos (/ su)) by (apply Qlt_le_weak, Qinv_lt_0_compat; exact Hsu).
  unfold Qdiv. apply Qmult_le_compat_r; [|apply Qlt_le_weak, Qinv_lt_0_compat; exact Hsu].
  eapply Qle_trans; [apply Qabs_triangle|].
  assert (Hts : Qabs (t * (sv - su)) <= S).
  { rewrite Qabs_Qmult. rewrite (Qabs_pos t) by exact Ht0.
    assert (Hs' : Qabs (sv - su) <= S) by (revert HS; qabs_lra).
    apply Qle_trans with (1 * Qabs (sv - su)); [|lra].
    apply Qmult_le_compat_r; [exact Ht1|apply Qabs_nonneg]. }
  lra.
Qed.

(* F5.  u, v : vectors of the same length K with entries >= eps > 0.  Then
        | u_i / sum u - v_i / sum v |  <=  ( |u_i - v_i| + sum_j |u_j - v_j| ) / (K * eps). *)
Theorem normalise_lipschitz : forall eps u v, 0 < eps -> length u = length v ->
  Forall (fun x => eps <= x) u -> Forall (fun x => eps <= x) v ->
  forall i, (i < length u)%nat ->
  Qabs (nth i (normalise u) 0 - nth i (normalise v) 0)
    <= (Qabs (nth i u 0 - nth i v 0) + l1dist u v) / (inject_Z (Z.of_nat (length u)) * eps).
Proof.
  intros eps u v He Hl Hu Hv i Hi. rewrite !nth_normalise.
  assert (Hne : u <> []) by (intros E; subst; cbn in Hi; lia).
  assert (HK : 1 <= inject_Z (Z.of_nat (length u))) by (apply inject_len_ge1; exact Hne).
  pose proof (qsum_ge_len eps u Hu) as Gu. pose proof (qsum_ge_len eps v Hv) as Gv. rewrite <- Hl in Gv.
  assert (HKe : 0 < inject_Z (Z.of_nat (length u)) * eps) by (apply Qmult_lt_0_compat; lra).
  assert (Hsu : 0 < qsum u) by lra. assert (Hsv : 0 < qsum v) by lra.
  assert (Hv0 : Forall (fun x => 0 <= x) v) by (eapply Forall_impl; [|exact Hv]; cbn; intros; lra).
  assert (Hb0 : 0 <= nth i v 0).
  { apply (nth_in_Forall (P := fun x => 0 <= x)); [exact Hv0|lia]. }
  assert (Hb : nth i v 0 <= qsum v) by (apply qsum_ge_in; [exact Hv0|apply nth_In; lia]).
  eapply Qle_trans; [apply (ratio_diff_bound _ _ _ _ (l1dist u v) Hsu Hsv Hb0 Hb (qsum_diff_abs u v Hl))|].
  apply Qdiv_le_compat; [|lra|exact HKe|exact Gu].
  pose proof (Qabs_nonneg (nth i u 0 - nth i v 0)). pose proof (l1dist_nonneg u v). lra.
Qed.

(* F5', uniform version: if every entry moves by at most d, every normalised entry moves by at most 2 d / eps. *)
Theorem normalise_lipschitz_uniform : forall eps d u v, 0 < eps -> length u = length v ->
  Forall (fun x => eps <= x) u -> Forall (fun x => eps <= x) v ->
  (forall j, (j < length u)%nat -> Qabs (nth j u 0 - nth j v 0) <= d) ->
  forall i, (i < length u)%nat ->
  Qabs (nth i (normalise u) 0 - nth i (normalise v) 0) <= 2 * d / eps.
Proof.
  intros eps d u v He Hl Hu Hv Hd i Hi.
  eapply Qle_trans; [apply (normalise_lipschitz eps u v He Hl Hu Hv i Hi)|].
  assert (Hne : u <> []) by (intros E; subst; cbn in Hi; lia).
  assert (HK : 1 <= inject_Z (Z.of_nat (length u))) by (apply inject_len_ge1; exact Hne).
  pose proof (l1dist_uniform d u v Hl Hd) as H1. pose proof (Hd i Hi) as H2.
  assert (Hd0 : 0 <= d) by (eapply Qle_trans; [apply Qabs_nonneg|exact H2]).
  set (K := inject_Z (Z.of_nat (length u))) in *. clearbody K.
  assert (HKe : 0 < K * eps) by (apply Qmult_lt_0_compat; lra).
  apply Qle_shift_div_r; [exact HKe|].
  assert (E : 2 * d / eps * (K * eps) == 2 * d * K) by (field; lra). rewrite E.
  assert (d * 1 <= d * K) by (rewrite !(Qmult_comm d); apply Qmult_le_compat_r; assumption).
  lra.
Qed.

(* ---------------------------------------------------------------------------------------------------------------- *)
(* F6 : the decoded probability row of a far row is close to the decoded prior row                                  *)
(* ---------------------------------------------------------------------------------------------------------------- *)
(* the prior: column k (the last one, k = K-1) of invA *)
Definition prior_col (k : nat) (invA : list (list Q)) : list Q := map (fun row => nth k row 0) invA.
(* what predict_proba returns when the raw decoded vector is exactly the prior *)
Definition probas_prior (eps : Q) (k : nat) (invA : list (list Q)) : list Q :=
  normalise (map (qclamp eps (1 - eps)) (prior_col k invA)).

Lemma nth_prior_col k invA i : (i < length invA)%nat -> nth i (prior_col k invA) 0 = nth k (nth i invA []) 0.
Proof. intros Hi. unfold prior_col. exact (nth_map_gen (fun row => nth k row 0) [] 0 i invA Hi). Qed.

Lemma clamp_Forall_ge eps l : eps <= 1 - eps -> Forall (fun x => eps <= x) (map (qclamp eps (1 - eps)) l).
Proof.
  intros H. apply Forall_forall. intros x Hx. apply in_map_iff in Hx. destruct Hx as [y [<- _]].
  apply qclamp_bounds. exact H.
Qed.

(* F6.  K = length invA classes, raw prediction num of length K-1 with all entries of size <= delta,
        entries of invA of size <= B.  Every class probability is within 2 (K-1) B delta / eps of the probability decoded from
        the prior itself.  In particular it tends to the decoded training class frequencies as delta -> 0. *)
Theorem probas_prevalence_near_prior : forall eps invA num delta B,
  0 < eps -> eps <= 1 # 2 ->
  Forall (fun row => length row = S (length num)) invA ->
  (forall j, Qabs (nth j num 0) <= delta) ->
  (forall i j, Qabs (nth j (nth i invA []) 0) <= B) ->
  0 <= delta -> 0 <= B ->
  forall i, (i < length invA)%nat ->
  Qabs (nth i (probas_prevalence eps invA num) 0 - nth i (probas_prior eps (length num) invA) 0)
    <= 2 * (inject_Z (Z.of_nat (length num)) * B * delta) / eps.
Proof.
  intros eps invA num delta B He Hh Hsh Hn HA Hd HB i Hi.
  unfold probas_prevalence, probas_prior.
  assert (Hc : eps <= 1 - eps) by lra.
  assert (L1 : length (raw_prevalence invA num) = length invA) by (unfold raw_prevalence; apply map_length).
  assert (L2 : length (prior_col (length num) invA) = length invA) by (unfold prior_col; apply map_length).
  apply normalise_lipschitz_uniform.
  - exact He.
  - rewrite !map_length, L1, L2. reflexivity.
  - apply clamp_Forall_ge. exact Hc.
  - apply clamp_Forall_ge. exact Hc.
  - intros j Hj. rewrite map_length, L1 in Hj.
    rewrite !nth_map_clamp by (rewrite ?L1, ?L2; exact Hj).
    eapply Qle_trans; [apply qclamp_lipschitz; exact Hc|].
    rewrite (nth_prior_col _ _ _ Hj).
    apply raw_prevalence_near_prior; assumption.
  - rewrite map_length, L1. exact Hi.
Qed.

Lemma nth_repeat0 (n : nat) : forall j, nth j (repeat 0 n) 0 = 0.
Proof. induction n as [|n IH]; intros [|j]; cbn [repeat nth]; try reflexivity. apply IH. Qed.

(* F6'.  Same bound against the model's own output on the zero raw prediction (the limit of the raw prediction of a
         kernel model whose kernel vanishes at infinity). *)
Theorem probas_prevalence_near_zero_prediction : forall eps invA num delta B,
  0 < eps -> eps <= 1 # 2 ->
  Forall (fun row => length row = S (length num)) invA ->
  (forall j, Qabs (nth j num 0) <= delta) ->
  (forall i j, Qabs (nth j (nth i invA []) 0) <= B) ->
  0 <= delta -> 0 <= B ->
  forall i, (i < length invA)%nat ->
  Qabs (nth i (probas_prevalence eps invA num) 0 - nth i (probas_prevalence eps invA (repeat 0 (length num))) 0)
    <= 2 * (inject_Z (Z.of_nat (length num)) * B * delta) / eps.
Proof.
  intros eps invA num delta B He Hh Hsh Hn HA Hd HB i Hi.
  pose proof (probas_prevalence_near_prior eps invA num delta B He Hh Hsh Hn HA Hd HB i Hi) as H1.
  assert (H2 : Qabs (nth i (probas_prevalence eps invA (repeat 0 (length num))) 0
                     - nth i (probas_prior eps (length num) invA) 0) <= 0).
  { assert (Hz : forall j, Qabs (nth j (repeat 0 (length num)) 0) <= 0).
    { intros j. rewrite nth_repeat0. discriminate. }
    pose proof (probas_prevalence_near_prior eps invA (repeat 0 (length num)) 0 B He Hh) as G.
    rewrite repeat_length in G. specialize (G Hsh Hz HA (Qle_refl 0) HB i Hi).
    assert (E : 2 * (inject_Z (Z.of_nat (length num)) * B * 0) / eps == 0) by (field; lra).
    rewrite E in G. exact G. }
  set (p := nth i (probas_prevalence eps invA num) 0) in *.
  set (z := nth i (probas_prevalence eps invA (repeat 0 (length num))) 0) in *.
  set (q := nth i (probas_prior eps (length num) invA) 0) in *.
  set (M := 2 * (inject_Z (Z.of_nat (length num)) * B * delta) / eps) in *. clearbody p z q M.
  qabs_lra.
Qed.

(* ---------------------------------------------------------------------------------------------------------------- *)
(* Examples: K = 3 classes, a concrete rational invA (rows = classes; last column = prior (1/2, 1/3, 1/6))           *)
(* ---------------------------------------------------------------------------------------------------------------- *)
Definition exInvA : list (list Q) := [ [ 1 # 2;  1 # 4; 1 # 2];
                                       [-1 # 2;  1 # 4; 1 # 3];
                                       [ 0    ; -1 # 2; 1 # 6] ].
Definition exNum : list Q := [1 # 10; -1 # 20].

Ltac qconcrete := cbn; try (unfold Qle, Qlt; cbn; lia); try discriminate; try reflexivity.

Lemma exShape : Forall (fun row => length row = S (length exNum)) exInvA.
Proof. repeat constructor. Qed.
Lemma exNumBound : forall j, Qabs (nth j exNum 0) <= 1 # 10.
Proof. intros [|[|[|j]]]; qconcrete. Qed.
Lemma exABound : forall i j, Qabs (nth j (nth i exInvA []) 0) <= 1 # 2.
Proof. intros [|[|[|[|i]]]] [|[|[|[|j]]]]; qconcrete. Qed.

Example ex_raw_prevalence_affine :
  nth 1 (raw_prevalence exInvA exNum) 0 == dot exNum [-1 # 2; 1 # 4] + (1 # 3).
Proof. apply (raw_prevalence_affine exInvA exNum exShape 1%nat). cbn. lia. Qed.

Example ex_raw_prevalence_zero : nth 2 (raw_prevalence exInvA (repeat 0 2)) 0 == 1 # 6.
Proof. apply (raw_prevalence_zero exInvA 2 exShape 2%nat). cbn. lia. Qed.

Example ex_raw_prevalence_near_prior :
  Qabs (nth 1 (raw_prevalence exInvA exNum) 0 - (1 # 3)) <= 2 * (1 # 2) * (1 # 10).
Proof.
  apply (raw_prevalence_near_prior exInvA exNum (1 # 10) (1 # 2) exShape exNumBound exABound); qconcrete.
Qed.
(* the bound is not vacuous: the decoded value really differs from the prior here *)
Example ex_raw_prevalence_moves : ~ nth 1 (raw_prevalence exInvA exNum) 0 == 1 # 3.
Proof. cbn. intros H. unfold Qeq in H. cbn in H. lia. Qed.

Example ex_qclamp_lipschitz :
  Qabs (qclamp (1 # 100) (99 # 100) (-1 # 5) - qclamp (1 # 100) (99 # 100) (1 # 2)) <= Qabs ((-1 # 5) - (1 # 2)).
Proof. apply qclamp_lipschitz. qconcrete. Qed.

Example ex_normalise_lipschitz :
  Qabs (nth 0 (normalise [1 # 2; 1 # 3; 1 # 6]) 0 - nth 0 (normalise [2 # 5; 2 # 5; 1 # 10]) 0)
    <= (Qabs ((1 # 2) - (2 # 5)) + l1dist [1 # 2; 1 # 3; 1 # 6] [2 # 5; 2 # 5; 1 # 10]) / (3 * (1 # 10)).
Proof.
  apply (normalise_lipschitz (1 # 10) [1 # 2; 1 # 3; 1 # 6] [2 # 5; 2 # 5; 1 # 10]);
    try (repeat constructor; qconcrete); qconcrete.
Qed.

Example ex_probas_prevalence_near_prior :
  Qabs (nth 0 (probas_prevalence (1 # 100) exInvA exNum) 0 - nth 0 (probas_prior (1 # 100) 2 exInvA) 0)
    <= 2 * (2 * (1 # 2) * (1 # 10)) / (1 # 100).
Proof.
  apply (probas_prevalence_near_prior (1 # 100) exInvA exNum (1 # 10) (1 # 2)); try exact exShape;
    try exact exNumBound; try exact exABound; qconcrete.
Qed.
(* the decoded prior row of the example is the prior itself (no clamping active, already normalised) *)
Example ex_probas_prior : Forall2 Qeq (probas_prior (1 # 100) 2 exInvA) [1 # 2; 1 # 3; 1 # 6].
Proof. repeat constructor; vm_compute; reflexivity. Qed.

Print Assumptions raw_prevalence_affine.
Print Assumptions raw_prevalence_zero.
Print Assumptions raw_prevalence_near_prior.
Print Assumptions qclamp_lipschitz.
Print Assumptions normalise_lipschitz.
Print Assumptions normalise_lipschitz_uniform.
Print Assumptions probas_prevalence_near_prior.
Print Assumptions probas_prevalence_near_zero_prediction.
