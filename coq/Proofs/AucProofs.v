(* Sign / class-role sensitivity of the pair-counting AUC model (Model/Metrics.v): exact rationals only. *)
From Coq Require Import QArith Qabs List Bool Arith Lia Lqa.
Require Import XV.Model.Tree XV.Model.Soft XV.Model.Labels XV.Model.Metrics XV.Proofs.SoftProofs XV.Proofs.LabelsProofs XV.Proofs.MetricsProofs.
Import ListNotations.
Local Open Scope Q_scope.

(* ---- generic facts on qsum ---- *)
Lemma inject_succ n : inject_Z (Z.of_nat (S n)) == inject_Z (Z.of_nat n) + 1.
Proof. rewrite Nat2Z.inj_succ. unfold Z.succ. rewrite inject_Z_plus. change (inject_Z 1) with 1. lra. Qed.

Lemma qsum_map_ext {A} (f g : A -> Q) (l : list A) : (forall x, In x l -> f x == g x) -> qsum (map f l) == qsum (map g l).
Proof.
  induction l as [|x l IH]; intros H; [reflexivity|]. cbn [map qsum].
  rewrite (H x (or_introl eq_refl)), IH by (intros z Hz; apply H; right; exact Hz). reflexivity.
Qed.

Lemma qsum_map_plus {A} (f g : A -> Q) (l : list A) : qsum (map (fun x => f x + g x) l) == qsum (map f l) + qsum (map g l).
Proof. induction l as [|x l IH]; cbn [map qsum]; [lra|]. rewrite IH. lra. Qed.

Lemma qsum_map_zero {A} (l : list A) : qsum (map (fun _ => 0) l) == 0.
Proof. induction l as [|x l IH]; cbn [map qsum]; [lra|]. rewrite IH. lra. Qed.

(* sum of the complements = count - sum *)
Lemma qsum_map_compl {A} (f : A -> Q) (l : list A) :
  qsum (map (fun x => 1 - f x) l) == inject_Z (Z.of_nat (length l)) - qsum (map f l).
Proof.
  induction l as [|x l IH]; [cbn; change (inject_Z 0) with 0; lra|]. cbn [map qsum length].
  rewrite IH, inject_succ. lra.
Qed.

(* double-sum version *)
Lemma qsum2_map_compl {A B} (f : A -> B -> Q) (l : list A) (m : list B) :
  qsum (map (fun a => qsum (map (fun b => 1 - f a b) m)) l)
  == inject_Z (Z.of_nat (length l)) * inject_Z (Z.of_nat (length m)) - qsum (map (fun a => qsum (map (f a) m)) l).
Proof.
  induction l as [|x l IH]; [cbn; change (inject_Z 0) with 0; lra|]. cbn [map qsum length].
  rewrite IH, inject_succ, (qsum_map_compl (f x) m). lra.
Qed.

(* exchanging the order of a finite double sum *)
Lemma qsum2_exchange {A B} (f : A -> B -> Q) (l : list A) (m : list B) :
  qsum (map (fun b => qsum (map (fun a => f a b) l)) m) == qsum (map (fun a => qsum (map (f a) m)) l).
Proof.
  induction l as [|x l IH]; [cbn [map qsum]; apply qsum_map_zero|]. cbn [map qsum].
  rewrite (qsum_map_plus (fun b => f x b) (fun b => qsum (map (fun a => f a b) l)) m), IH. reflexivity.
Qed.

(* ---- U1 / U2 : the pair score ---- *)
Lemma pair_score_opp a b : pair_score (- a) (- b) == 1 - pair_score a b.
Proof.
  unfold pair_score.
  destruct (Qle_bool (- a) (- b)) eqn:E1; destruct (Qle_bool (- b) (- a)) eqn:E2;
  destruct (Qle_bool a b) eqn:E3; destruct (Qle_bool b a) eqn:E4;
  try (apply Qle_bool_iff in E1); try (apply Qle_bool_iff in E2); try (apply Qle_bool_iff in E3); try (apply Qle_bool_iff in E4);
  try lra;
  exfalso;
  repeat match goal with H : Qle_bool ?x ?y = false |- _ =>
    assert (~ x <= y) by (intros Hc; apply Qle_bool_iff in Hc; rewrite Hc in H; discriminate); clear H end;
  lra.
Qed.

Lemma pair_score_swap a b : pair_score b a == 1 - pair_score a b.
Proof.
  unfold pair_score.
  destruct (Qle_bool a b) eqn:E3; destruct (Qle_bool b a) eqn:E4;
  try (apply Qle_bool_iff in E3); try (apply Qle_bool_iff in E4);
  try lra;
  exfalso;
  repeat match goal with H : Qle_bool ?x ?y = false |- _ =>
    assert (~ x <= y) by (intros Hc; apply Qle_bool_iff in Hc; rewrite Hc in H; discriminate); clear H end;
  lra.
Qed.

(* ---- the raw pair count ---- *)
Definition auc_num (pos neg : list Q) : Q := qsum (map (fun a => qsum (map (pair_score a) neg)) pos).

Lemma auc_bin_num pos neg : auc_bin pos neg = auc_num pos neg / inject_Z (Z.of_nat (length pos * length neg)).
Proof. reflexivity. Qed.

Lemma auc_num_negated pos neg :
  auc_num (map Qopp pos) (map Qopp neg) == inject_Z (Z.of_nat (length pos)) * inject_Z (Z.of_nat (length neg)) - auc_num pos neg.
Proof.
  unfold auc_num. rewrite map_map.
  rewrite (qsum_map_ext (fun a => qsum (map (pair_score (- a)) (map Qopp neg))) (fun a => qsum (map (fun b => 1 - pair_score a b) neg))).
  - apply qsum2_map_compl.
  - intros a _. rewrite map_map. apply qsum_map_ext. intros b _. apply pair_score_opp.
Qed.

Lemma auc_num_swapped pos neg :
  auc_num neg pos == inject_Z (Z.of_nat (length pos)) * inject_Z (Z.of_nat (length neg)) - auc_num pos neg.
Proof.
  unfold auc_num.
  rewrite (qsum_map_ext (fun b => qsum (map (pair_score b) pos)) (fun b => qsum (map (fun a => 1 - pair_score a b) pos))).
  - rewrite (qsum2_exchange (fun a b => 1 - pair_score a b) pos neg). apply qsum2_map_compl.
  - intros b _. apply qsum_map_ext. intros a _. apply pair_score_swap.
Qed.

Lemma auc_den_pos (pos neg : list Q) : pos <> [] -> neg <> [] ->
  0 < inject_Z (Z.of_nat (length pos)) * inject_Z (Z.of_nat (length neg)).
Proof. intros Hp Hn. pose proof (inject_len_ge1 pos Hp). pose proof (inject_len_ge1 neg Hn). nra. Qed.

(* ---- U3 ---- *)
Theorem auc_bin_negated_scores pos neg : pos <> [] -> neg <> [] ->
  auc_bin (map Qopp pos) (map Qopp neg) == 1 - auc_bin pos neg.
Proof.
  intros Hp Hn. rewrite !auc_bin_num, !map_length, auc_num_negated, Nat2Z.inj_mul, inject_Z_mult.
  pose proof (inject_len_ge1 pos Hp). pose proof (inject_len_ge1 neg Hn). field. split; lra.
Qed.

(* ---- U4 ---- *)
Theorem auc_bin_swapped_classes pos neg : pos <> [] -> neg <> [] -> auc_bin neg pos == 1 - auc_bin pos neg.
Proof.
  intros Hp Hn. rewrite !auc_bin_num, auc_num_swapped, !Nat2Z.inj_mul, !inject_Z_mult.
  pose proof (inject_len_ge1 pos Hp). pose proof (inject_len_ge1 neg Hn). field. split; lra.
Qed.

(* ---- U5 / U6 : already in MetricsProofs, restated ---- *)
Theorem auc_bin_range pos neg : pos <> [] -> neg <> [] -> 0 <= auc_bin pos neg /\ auc_bin pos neg <= 1.
Proof. exact (XV.Proofs.MetricsProofs.auc_bin_range pos neg). Qed.

Theorem auc_bin_perfect pos neg : pos <> [] -> neg <> [] ->
  (forall a b, In a pos -> In b neg -> b < a) -> auc_bin pos neg == 1.
Proof. exact (XV.Proofs.MetricsProofs.auc_bin_perfect pos neg). Qed.

(* ---- U7 ---- *)
Theorem auc_bin_inverted pos neg : pos <> [] -> neg <> [] ->
  (forall a b, In a pos -> In b neg -> a < b) -> auc_bin pos neg == 0.
Proof.
  intros Hp Hn Hsep.
  pose proof (auc_bin_swapped_classes neg pos Hn Hp) as Hs.
  rewrite (XV.Proofs.MetricsProofs.auc_bin_perfect neg pos Hn Hp) in Hs by (intros a b Ha Hb; apply Hsep; assumption).
  lra.
Qed.

(* ---- U8 and satisfiability examples ---- *)
Example auc_quarter : auc_bin [1; 4] [2; 3; 5; 6] == 1 # 4.
Proof. vm_compute. reflexivity. Qed.
Example auc_quarter_negated : auc_bin (map Qopp [1; 4]) (map Qopp [2; 3; 5; 6]) == 3 # 4.
Proof. vm_compute. reflexivity. Qed.
Example auc_quarter_via_U3 : auc_bin (map Qopp [1; 4]) (map Qopp [2; 3; 5; 6]) == 1 - (1 # 4).
Proof. rewrite auc_bin_negated_scores by discriminate. rewrite auc_quarter. reflexivity. Qed.
Example auc_quarter_swapped : auc_bin [2; 3; 5; 6] [1; 4] == 3 # 4.
Proof. rewrite auc_bin_swapped_classes by discriminate. rewrite auc_quarter. reflexivity. Qed.
(* with a tie: 1 vs 1 counts one half *)
Example auc_tie : auc_bin [1; 3] [1; 2] == 5 # 8 /\ auc_bin (map Qopp [1; 3]) (map Qopp [1; 2]) == 3 # 8.
Proof. split; vm_compute; reflexivity. Qed.
Example pair_score_opp_ex : pair_score (- (3 # 2)) (- (1 # 2)) == 0 /\ pair_score (3 # 2) (1 # 2) == 1.
Proof. split; vm_compute; reflexivity. Qed.
Example pair_score_swap_ex : pair_score (1 # 2) (3 # 2) == 0 /\ pair_score (2 # 4) (1 # 2) == 1 # 2.
Proof. split; vm_compute; reflexivity. Qed.
Example auc_range_ex : 0 <= auc_bin [1; 4] [2; 3; 5; 6] /\ auc_bin [1; 4] [2; 3; 5; 6] <= 1.
Proof. apply auc_bin_range; discriminate. Qed.
Example auc_perfect_ex : auc_bin [3; 4 # 1] [1; 2] == 1.
Proof.
  apply auc_bin_perfect; try discriminate. intros a b [<-|[<-|[]]] [<-|[<-|[]]]; reflexivity.
Qed.
Example auc_inverted_ex : auc_bin [1; 2] [3; 7 # 2] == 0.
Proof.
  apply auc_bin_inverted; try discriminate. intros a b [<-|[<-|[]]] [<-|[<-|[]]]; reflexivity.
Qed.

Print Assumptions auc_bin_negated_scores.
Print Assumptions auc_bin_swapped_classes.
Print Assumptions auc_bin_inverted.
