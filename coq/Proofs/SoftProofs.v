(* Proofs about Model/Soft.v (cache construction and rational truncation). *)
From Coq Require Import QArith List Bool Arith Lia Lqa Permutation Sorting.Sorted.
Require Import XV.Model.Tree XV.Model.Soft.
Import ListNotations.
Local Open Scope nat_scope.

(* ---------- the explicit-stack cache builder computes the structural path table ---------- *)
Section CacheProofs.
  Context {L : Type}.

  Fixpoint stack_paths (st : list (tree L * gpath)) (next : nat) : list (L * gpath) :=
    match st with
    | [] => []
    | (T, p) :: st' => paths_from T next p ++ stack_paths st' (next + nsplit T)
    end.
  Fixpoint stack_nodes (st : list (tree L * gpath)) (next : nat) : list (nat * (list Q * Q)) :=
    match st with
    | [] => []
    | (T, p) :: st' => nodes_from T next ++ stack_nodes st' (next + nsplit T)
    end.
  Fixpoint stack_weight (st : list (tree L * gpath)) : nat :=
    match st with [] => 0 | (T, _) :: st' => 2 * nsplit T + 1 + stack_weight st' end.

  Lemma cache_loop_spec : forall fuel st next lv sp,
    stack_weight st < fuel ->
    cache_loop fuel st next lv sp = Some (lv ++ stack_paths st next, sp ++ stack_nodes st next).
  Proof.
    induction fuel as [|f IH]; intros st next lv sp Hw; [lia|].
    destruct st as [|[T p] st]; cbn [cache_loop].
    - cbn. rewrite !app_nil_r. reflexivity.
    - destruct T as [m|v b l r].
      + rewrite IH by (cbn in Hw; lia). cbn [stack_paths stack_nodes paths_from nodes_from nsplit].
        rewrite Nat.add_0_r, <- app_assoc. reflexivity.
      + rewrite IH by (cbn in *; lia). cbn [stack_paths stack_nodes paths_from nodes_from nsplit].
        replace (S next + nsplit l + nsplit r) with (next + S (nsplit l + nsplit r)) by lia.
        repeat (rewrite <- !app_assoc; cbn [app]). reflexivity.
  Qed.

  Theorem build_cache_spec (T : tree L) : build_cache T = Some (paths T, nodes T).
  Proof.
    unfold build_cache. rewrite cache_loop_spec by (cbn; lia). cbn. rewrite !app_nil_r. reflexivity.
  Qed.

  (* the leaf reached by hard routing is the leaf whose path is followed by the gates' signs *)
  Lemma paths_length (T : tree L) : forall next p, length (paths_from T next p) = S (nsplit T).
  Proof.
    induction T as [m|v b l IHl r IHr]; intros next p; cbn; [reflexivity|].
    rewrite app_length, IHl, IHr. lia.
  Qed.
End CacheProofs.

(* ---------- rational truncation ---------- *)
Local Open Scope Q_scope.

Lemma qsum_app a b : qsum (a ++ b) == qsum a + qsum b.
Proof. induction a as [|x a IH]; cbn; [lra|]. rewrite IH. lra. Qed.

Lemma qsum_nonneg l : Forall (fun x => 0 <= x) l -> 0 <= qsum l.
Proof. induction 1; cbn; lra. Qed.

Lemma qsum_map_div l t : ~ t == 0 -> qsum (map (fun x => x / t) l) == qsum l / t.
Proof. intros Ht. induction l as [|x l IH]; cbn; [field; exact Ht|]. rewrite IH. field. exact Ht. Qed.

Lemma qsum_ge_in l x : Forall (fun y => 0 <= y) l -> In x l -> x <= qsum l.
Proof.
  induction 1 as [|y l Hy Hl IH]; intros Hin; [destruct Hin|]. cbn. destruct Hin as [->|Hin].
  - pose proof (qsum_nonneg l Hl). lra.
  - specialize (IH Hin). lra.
Qed.

(* any mask: normalising non-negative masked weights with positive total gives a point of the simplex *)
Theorem normalised_is_simplex (m : list Q) :
  Forall (fun x => 0 <= x) m -> 0 < qsum m ->
  Forall (fun x => 0 <= x) (map (fun x => x / qsum m) m) /\ qsum (map (fun x => x / qsum m) m) == 1.
Proof.
  intros Hn Hp. split.
  - apply Forall_forall. intros y Hy. apply in_map_iff in Hy. destruct Hy as [x [<- Hx]].
    rewrite Forall_forall in Hn. specialize (Hn x Hx).
    unfold Qdiv. apply Qmult_le_0_compat; [exact Hn|]. apply Qlt_le_weak, Qinv_lt_0_compat. exact Hp.
  - rewrite qsum_map_div by lra. field. lra.
Qed.

(* convex combination: with weights >= 0 summing to 1, the weighted value lies between any bounds that hold
   for the entries carrying positive weight *)
Theorem convex_hull (w v : list Q) (lo hi : Q) : length w = length v ->
  Forall (fun x => 0 <= x) w -> qsum w == 1 ->
  (forall i, (i < length w)%nat -> 0 < nth i w 0 -> lo <= nth i v 0 <= hi) ->
  lo <= wdot w v <= hi.
Proof.
  intros Hlen Hn Hs Hb.
  assert (G : forall w v, length w = length v -> Forall (fun x => 0 <= x) w ->
              (forall i, (i < length w)%nat -> 0 < nth i w 0 -> lo <= nth i v 0 <= hi) ->
              lo * qsum w <= wdot w v <= hi * qsum w).
  { clear. induction w as [|x w IH]; intros v Hlen Hn Hb; destruct v as [|y v]; try discriminate; cbn; [lra|].
    inversion Hn as [|? ? Hx Hw]; subst. cbn in Hlen. injection Hlen as Hlen.
    specialize (IH v Hlen Hw). assert (Hb' : forall i, (i < length w)%nat -> 0 < nth i w 0 -> lo <= nth i v 0 <= hi).
    { intros i Hi Hp. apply (Hb (S i)); [cbn; lia|exact Hp]. }
    specialize (IH Hb'). destruct (Qlt_le_dec 0 x) as [Hpos|Hz].
    - specialize (Hb O ltac:(cbn; lia) Hpos). cbn in Hb. nra.
    - assert (x == 0) by lra. nra. }
  specialize (G w v Hlen Hn Hb). rewrite Hs in G. lra.
Qed.

(* ---------- the sort, the active set ---------- *)
Definition ge_key (a b : Q * nat) : Prop := fst b <= fst a.

Lemma insert_desc_perm p l : Permutation (insert_desc p l) (p :: l).
Proof.
  induction l as [|q t IH]; cbn; [reflexivity|]. destruct (Qle_bool (fst q) (fst p)); [reflexivity|].
  eapply Permutation_trans; [apply perm_skip; apply IH|apply perm_swap].
Qed.
Lemma sort_desc_perm l : Permutation (sort_desc l) l.
Proof.
  induction l as [|p t IH]; cbn; [constructor|]. eapply Permutation_trans; [apply insert_desc_perm|]. constructor. exact IH.
Qed.

Lemma insert_desc_sorted p l : StronglySorted ge_key l -> StronglySorted ge_key (insert_desc p l).
Proof.
  induction l as [|q t IH]; intros S; cbn; [constructor; constructor|].
  inversion S as [|? ? S' F]; subst. destruct (Qle_bool (fst q) (fst p)) eqn:E.
  - apply Qle_bool_iff in E. constructor; [exact S|]. constructor; [exact E|].
    eapply Forall_impl; [|exact F]. intros a Ha. unfold ge_key in *. lra.
  - assert (Hlt : fst p < fst q).
    { apply Qnot_le_lt. intros Hc. apply Qle_bool_iff in Hc. congruence. }
    constructor; [apply IH; exact S'|]. apply Forall_forall. intros a Hin.
    apply (Permutation_in _ (insert_desc_perm p t)) in Hin. destruct Hin as [<-|Hin].
    + unfold ge_key. lra.
    + rewrite Forall_forall in F. apply F. exact Hin.
Qed.
Lemma sort_desc_sorted l : StronglySorted ge_key (sort_desc l).
Proof. induction l as [|p t IH]; cbn; [constructor|apply insert_desc_sorted; exact IH]. Qed.

Lemma in_skipn {A} (x : A) k l : In x (skipn k l) -> In x l.
Proof. intros H. rewrite <- (firstn_skipn k l). apply in_or_app. right. exact H. Qed.
Lemma in_firstn {A} (x : A) k l : In x (firstn k l) -> In x l.
Proof. intros H. rewrite <- (firstn_skipn k l). apply in_or_app. left. exact H. Qed.

(* in a descending list every element of a prefix is >= every element of the rest: the active set is top-weighted *)
Lemma sorted_prefix_top (s : list (Q * nat)) k : StronglySorted ge_key s ->
  forall a b, In a (firstn k s) -> In b (skipn k s) -> fst b <= fst a.
Proof.
  intros S. revert k. induction S as [|x s S IH F]; intros k a b Ha Hb.
  - destruct k; destruct Ha.
  - destruct k as [|k]; [destruct Ha|]. cbn in Ha, Hb. destruct Ha as [<-|Ha].
    + rewrite Forall_forall in F. apply (F b). eapply in_skipn. exact Hb.
    + eapply IH; eassumption.
Qed.

Lemma keep_count_bounds keep cap sorted : (1 <= cap)%nat -> sorted <> [] ->
  (1 <= keep_count keep cap sorted <= Nat.min cap (length sorted))%nat.
Proof.
  intros Hc Hs. unfold keep_count. destruct sorted as [|x t]; [contradiction|]. cbn [length]. lia.
Qed.

(* prefix sums of non-negative numbers are non-decreasing, so the sums below `keep` form a prefix:
   the kept set is the smallest prefix whose mass reaches keep (or is cut by the cap) *)
Lemma prefix_sums_from_ge acc l : Forall (fun x => 0 <= x) l -> Forall (fun c => acc <= c) (prefix_sums_from acc l).
Proof.
  intros H. revert acc. induction H as [|x l Hx Hl IH]; intros acc; cbn; [constructor|].
  constructor; [lra|]. eapply Forall_impl; [|apply IH]. intros c Hc. cbn in Hc. lra.
Qed.

Lemma filter_below_prefix keep : forall l acc, Forall (fun x => 0 <= x) l ->
  let c := prefix_sums_from acc l in
  let k := length (filter (below keep) c) in
  Forall (fun x => x < keep) (firstn k c) /\ Forall (fun x => keep <= x) (skipn k c).
Proof.
  induction l as [|x l IH]; intros acc Hn; cbn; [split; constructor|].
  inversion Hn as [|? ? Hx Hl]; subst. destruct (below keep (acc + x)) eqn:B; cbn [length firstn skipn].
  - destruct (IH (acc + x) Hl) as [A C]. split; [|exact C]. constructor; [|exact A].
    unfold below in B. apply negb_true_iff in B. apply Qnot_le_lt. intros Hc. apply Qle_bool_iff in Hc. congruence.
  - (* acc + x >= keep, hence every later sum too: nothing below *)
    assert (Hk : keep <= acc + x).
    { unfold below in B. apply negb_false_iff in B. apply Qle_bool_iff. exact B. }
    assert (Hall : Forall (fun c => keep <= c) (prefix_sums_from (acc + x) l)).
    { eapply Forall_impl; [|apply prefix_sums_from_ge; exact Hl]. intros c Hc. cbn in Hc. lra. }
    assert (Hf : filter (below keep) (prefix_sums_from (acc + x) l) = []).
    { clear -Hall. induction Hall as [|c t Hc Ht IH]; cbn; [reflexivity|].
      replace (below keep c) with false; [exact IH|]. symmetry. unfold below. apply negb_false_iff. apply Qle_bool_iff. exact Hc. }
    rewrite Hf. cbn. split; [constructor|]. constructor; [exact Hk|exact Hall].
Qed.
