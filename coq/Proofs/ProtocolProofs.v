From Coq Require Import List Bool Arith Lia.
Require Import XV.Model.Protocol.
Import ListNotations.

Lemma erun_app v a b s : erun v (a ++ b) s = erun v b (erun v a s).
Proof. unfold erun. apply fold_left_app. Qed.

(* inside a wrapped body (variable = override on entry): nested calls restore the override, observations see it *)
Lemma inside_spec v : forall body, inside body -> forall s, cur s = Some v ->
  cur (erun v body s) = Some v /\ saved_stack (erun v body s) = saved_stack s /\
  (Forall (fun x => x = Some v) (seen s) -> Forall (fun x => x = Some v) (seen (erun v body s))).
Proof.
  induction 1 as [|rest Hr IHr|body rest Hb IHb Hr IHr]; intros s Hc.
  - cbn. auto.
  - change (Observe :: rest) with ([Observe] ++ rest). rewrite erun_app.
    destruct (IHr (erun v [Observe] s)) as (A & B & C); [cbn; exact Hc|].
    split; [exact A|]. split; [rewrite B; reflexivity|]. intros Hs. apply C. cbn. apply Forall_app. split; [exact Hs|].
    constructor; [exact Hc|constructor].
  - change (Enter :: body ++ Exit :: rest) with ([Enter] ++ body ++ [Exit] ++ rest). rewrite !erun_app.
    set (s1 := erun v [Enter] s).
    destruct (IHb s1) as (A1 & B1 & C1); [reflexivity|].
    set (s2 := erun v body s1) in *.
    assert (Hs3 : cur (erun v [Exit] s2) = Some v /\ saved_stack (erun v [Exit] s2) = saved_stack s /\ seen (erun v [Exit] s2) = seen s2).
    { cbn. rewrite B1. cbn. rewrite Hc. auto. }
    destruct Hs3 as (A3 & B3 & C3). set (s3 := erun v [Exit] s2) in *.
    destruct (IHr s3 A3) as (A4 & B4 & C4).
    split; [exact A4|]. split; [rewrite B4; exact B3|]. intros Hs. apply C4. rewrite C3. apply C1. exact Hs.
Qed.

(* every well-bracketed execution, every initial value (present or absent): the variable is back to what it was,
   and every observation made inside a wrapped body saw the override *)
Theorem env_restored v : forall ops, balanced ops -> forall s,
  cur (erun v ops s) = cur s /\ saved_stack (erun v ops s) = saved_stack s /\
  (Forall (fun x => x = Some v) (seen s) -> Forall (fun x => x = Some v) (seen (erun v ops s))).
Proof.
  induction 1 as [|body Hb|a b Ha IHa Hb IHb]; intros s.
  - cbn. auto.
  - change (Enter :: body ++ [Exit]) with ([Enter] ++ body ++ [Exit]). rewrite !erun_app.
    set (s1 := erun v [Enter] s).
    destruct (inside_spec v body Hb s1 eq_refl) as (A & B & C). set (s2 := erun v body s1) in *.
    cbn. rewrite B. cbn. split; [reflexivity|]. split; [reflexivity|exact C].
  - rewrite erun_app. destruct (IHa s) as (A1 & B1 & C1). destruct (IHb (erun v a s)) as (A2 & B2 & C2).
    split; [rewrite A2; exact A1|]. split; [rewrite B2; exact B1|]. intros Hs. apply C2, C1, Hs.
Qed.

(* thread count: whatever the initial count and the requested n_threads, if the code in between does not itself change the
   count, a normal return leaves the count where it was *)
Theorem threads_restored (n_threads : option nat) (t0 : nat) :
  trun (fun t => t) (protocol n_threads) t0 = t0.
Proof. destruct n_threads; reflexivity. Qed.

(* without the restore step (or with a return before it) the count leaks: the model can tell the difference *)
Example threads_leak_without_restore : trun (fun t => t) [TSave; TSet 3; TBody; TReturn; TRestore] 8 = 3.
Proof. reflexivity. Qed.
