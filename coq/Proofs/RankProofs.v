From Coq Require Import QArith List Bool ZArith Arith Lia Lqa ZifyNat ZifyBool.
Require Import XV.Model.Split XV.Model.Tree XV.Model.Rank.
Import ListNotations.
Ltac Zify.zify_post_hook ::= Z.div_mod_to_equations.

Lemma countb_app {A} (p : A -> bool) a b : countb p (a ++ b) = (countb p a + countb p b)%nat.
Proof. unfold countb. rewrite filter_app, app_length. reflexivity. Qed.

Lemma countb_all {A} (p : A -> bool) l : (forall x, In x l -> p x = true) -> countb p l = length l.
Proof.
  unfold countb. induction l as [|a l IH]; intros H; cbn; [reflexivity|].
  rewrite (H a (or_introl eq_refl)). cbn. f_equal. apply IH. intros x Hx. apply H. right. exact Hx.
Qed.

Lemma countb_none {A} (p : A -> bool) l : (forall x, In x l -> p x = false) -> countb p l = 0%nat.
Proof.
  unfold countb. induction l as [|a l IH]; intros H; cbn; [reflexivity|].
  rewrite (H a (or_introl eq_refl)). apply IH. intros x Hx. apply H. right. exact Hx.
Qed.

Lemma countb_le {A} (p : A -> bool) l : (countb p l <= length l)%nat.
Proof. unfold countb. induction l as [|a l IH]; cbn; [lia|]. destruct (p a); cbn; lia. Qed.

Lemma countb_in_true {A} (p : A -> bool) l x : In x l -> p x = true -> (1 <= countb p l)%nat.
Proof.
  unfold countb. induction l as [|a l IH]; intros Hin Hp; [destruct Hin|]. cbn.
  destruct Hin as [->|Hin]; [rewrite Hp; cbn; lia|]. specialize (IH Hin Hp). destruct (p a); cbn; lia.
Qed.

Lemma countb_in_false {A} (p : A -> bool) l x : In x l -> p x = false -> (countb p l + 1 <= length l)%nat.
Proof.
  unfold countb. induction l as [|a l IH]; intros Hin Hp; [destruct Hin|]. cbn.
  destruct Hin as [->|Hin].
  - rewrite Hp. pose proof (countb_le p l) as H. unfold countb in H. lia.
  - specialize (IH Hin Hp). destruct (p a); cbn; lia.
Qed.

Lemma fold_qmin_le : forall B m, fold_left qmin B m <= m /\ forall c, In c B -> fold_left qmin B m <= c.
Proof.
  induction B as [|c0 B IH]; intros m; cbn [fold_left]; [split; [lra|intros c []]|].
  destruct (IH (qmin m c0)) as [H1 H2].
  assert (Hq : qmin m c0 <= m /\ qmin m c0 <= c0).
  { unfold qmin. destruct (Qle_bool c0 m) eqn:E; [apply Qle_bool_iff in E; split; lra|].
    split; [lra|]. apply Qlt_le_weak, Qnot_le_lt. intros Hc. apply Qle_bool_iff in Hc. congruence. }
  split; [lra|]. intros c [<-|Hc]; [lra|apply H2; exact Hc].
Qed.

Lemma all_le_spec e A B : all_le e A B = true -> forall a c, In a A -> In c B -> a <= c + e.
Proof.
  unfold all_le. intros H a c Ha Hc. destruct B as [|c0 B']; [destruct Hc|].
  rewrite forallb_forall in H. specialize (H a Ha). unfold Qleb in H. apply Qle_bool_iff in H.
  rewrite Qred_correct in H. destruct (fold_qmin_le B' c0) as [H1 H2].
  destruct Hc as [<-|Hc]; [lra|specialize (H2 c Hc); lra].
Qed.

Lemma Qltb_true p b : Qltb p b = true <-> p < b.
Proof.
  unfold Qltb. rewrite negb_true_iff. split.
  - intros H. apply Qnot_le_lt. intros Hle. apply Qle_bool_iff in Hle. congruence.
  - intros H. destruct (Qle_bool b p) eqn:E; [|reflexivity]. apply Qle_bool_iff in E. lra.
Qed.
Lemma Qleb_true p b : Qleb p b = true <-> p <= b.
Proof. unfold Qleb. apply Qle_bool_iff. Qed.
Lemma Qleb_false p b : Qleb p b = false <-> b < p.
Proof.
  unfold Qleb. split.
  - intros H. apply Qnot_le_lt. intros Hle. apply Qle_bool_iff in Hle. congruence.
  - intros H. destruct (Qle_bool p b) eqn:E; [|reflexivity]. apply Qle_bool_iff in E. lra.
Qed.

(* rank split vs threshold: a sample that went right only is not below the threshold by more than 2e,
   a sample that went left only is not above it by more than 2e.  Odd and even node sizes alike. *)
Theorem rank_vs_threshold e b lu ov ru : 0 <= e ->
  rank_split_okb e b lu ov ru = true ->
  (forall p, In p ru -> ~ p + 2 * e < b) /\ (forall p, In p lu -> ~ b + 2 * e < p).
Proof.
  intros He H. unfold rank_split_okb in H.
  repeat (apply andb_prop in H as [H ?]).
  match goal with Hm : lower_median_okb _ _ _ = true |- _ => unfold lower_median_okb in Hm; apply andb_prop in Hm as [Hlt Hle] end.
  match goal with H1 : all_le e (lu ++ ov) ru = true |- _ => pose proof (all_le_spec _ _ _ H1) as Hlo end.
  match goal with H1 : all_le e lu (ov ++ ru) = true |- _ => pose proof (all_le_spec _ _ _ H1) as Hul end.
  apply Z.eqb_eq in H. match goal with H1 : (_ =? right_unique _ _)%Z = true |- _ => apply Z.eqb_eq in H1; rename H1 into Hru end.
  apply Nat.leb_le in Hlt, Hle.
  rewrite !app_length in Hlt, Hle.
  unfold left_unique, right_unique, remaining in *.
  split.
  - intros p Hp Hbad.
    assert (C1 : countb (fun q => Qltb (q + e) b) (lu ++ ov) = length (lu ++ ov)).
    { apply countb_all. intros q Hq. apply Qltb_true. specialize (Hlo q p Hq Hp). lra. }
    assert (C2 : (1 <= countb (fun q => Qltb (q + e) b) ru)%nat).
    { apply (countb_in_true _ _ p Hp). apply Qltb_true. lra. }
    rewrite app_assoc, countb_app, C1, app_length in Hlt. lia.
  - intros p Hp Hbad.
    assert (C1 : countb (fun q => Qleb q (b + e)) (ov ++ ru) = 0%nat).
    { apply countb_none. intros q Hq. apply Qleb_false. specialize (Hul p q Hp Hq). lra. }
    assert (C2 : (countb (fun q => Qleb q (b + e)) lu + 1 <= length lu)%nat).
    { apply (countb_in_false _ _ p Hp). apply Qleb_false. lra. }
    rewrite countb_app, C1 in Hle. lia.
Qed.

Section TreeLevel.
  Variable X : nat -> list Q.

  Lemma memb_In i l : memb i l = true <-> In i l.
  Proof.
    unfold memb. rewrite existsb_exists. split.
    - intros [x [Hx E]]. apply Nat.eqb_eq in E. subst. exact Hx.
    - intros H. exists i. split; [exact H|apply Nat.eqb_refl].
  Qed.

  Theorem routing_agrees e : 0 <= e -> forall t i,
    tokb X e t = true -> In i (tids t) -> untied e t (X i) -> In i (route (erase t) (X i)).
  Proof.
    intros He. induction t as [ids|ids v b l IHl r IHr]; intros i Hok Hin Hun; cbn [erase route tids] in *; [exact Hin|].
    cbn [tokb] in Hok. repeat (apply andb_prop in Hok as [Hok ?]).
    cbn [untied] in Hun. destruct Hun as [Hband Hun].
    rewrite forallb_forall in Hok. specialize (Hok i Hin). apply orb_prop in Hok.
    match goal with Hr : rank_split_okb _ _ _ _ _ = true |- _ => destruct (rank_vs_threshold _ _ _ _ _ He Hr) as [Hru Hlu] end.
    destruct (goes_left (dot (X i) v) b) eqn:G.
    - apply IHl; [assumption| |exact Hun].
      destruct (memb i (tids l)) eqn:ML; [apply memb_In; exact ML|exfalso].
      destruct Hok as [Hok|Hok]; [discriminate|].
      assert (Hp : In (Qred (dot (X i) v)) (projs_of X v (filter (fun j => negb (memb j (tids l))) (tids r)))).
      { unfold projs_of. apply in_map_iff. exists i. split; [reflexivity|]. apply filter_In. split; [apply memb_In; exact Hok|rewrite ML; reflexivity]. }
      apply (Hru _ Hp). rewrite Qred_correct. unfold goes_left in G. apply Qle_bool_iff in G.
      apply Qnot_le_lt. intros Hc. apply Hband. split; lra.
    - apply IHr; [assumption| |exact Hun].
      destruct (memb i (tids r)) eqn:MR; [apply memb_In; exact MR|exfalso].
      destruct Hok as [Hok|Hok]; [|discriminate].
      assert (Hp : In (Qred (dot (X i) v)) (projs_of X v (filter (fun j => negb (memb j (tids r))) (tids l)))).
      { unfold projs_of. apply in_map_iff. exists i. split; [reflexivity|]. apply filter_In. split; [apply memb_In; exact Hok|rewrite MR; reflexivity]. }
      apply (Hlu _ Hp). rewrite Qred_correct. assert (Hgt : b < dot (X i) v).
      { apply Qnot_le_lt. intros Hc. apply Qle_bool_iff in Hc. unfold goes_left in G. congruence. }
      apply Qnot_le_lt. intros Hc. apply Hband. split; lra.
  Qed.

  Lemma untiedb_sound e t x : untiedb e t x = true -> untied e t x.
  Proof.
    induction t as [ids|ids v b l IHl r IHr]; cbn; [trivial|]. intros H. apply andb_prop in H as [H1 H2]. split.
    - intros [Ha Hb]. apply negb_true_iff in H1. apply andb_false_iff in H1.
      destruct H1 as [H1|H1]; apply Qleb_false in H1; lra.
    - destruct (goes_left (dot x v) b); auto.
  Qed.
End TreeLevel.
