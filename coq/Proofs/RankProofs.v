From Coq Require Import QArith List Bool ZArith Arith Lia Lqa ZifyNat ZifyBool.
Require Import XV.Model.Split XV.Model.Tree XV.Model.Rank.
Import ListNotations.
Ltac Zify.zify_post_hook ::= Z.div_mod_to_equations.

Lemma countb_app {A} (p : A -> bool) a b : countb p (a ++ b) = (countb p a + countb p b)%nat.
Proof. unfold countb. rewrite filter_app, app_length. reflexivity. Qed.

Lemma countb_all {A} (p : A -> bool) l : (forall x, In x l -> p x = true) -> countb p l = length l.
Proof.
  unfold countb. induction l as [|a l IH]; intros H; cbn; [reflexivity|].
  rewrite (H a (or_introl eq_refl)). cbn. f_equal. apply IH. intros x Hx. apply H. right. exact Hx.
Qed.

Lemma countb_none {A} (p : A -> bool) l : (forall x, In x l -> p x = false) -> countb p l = 0%nat.
Proof.
  unfold countb. induction l as [|a l IH]; intros H; cbn; [reflexivity|].
  rewrite (H a (or_introl eq_refl)). apply IH. intros x Hx. apply H. right. exact Hx.
Qed.

Lemma countb_le {A} (p : A -> bool) l : (countb p l <= length l)%nat.
Proof. unfold countb. induction l as [|a l IH]; cbn; [lia|]. destruct (p a); cbn; lia. Qed.

Lemma countb_in_true {A} (p : A -> bool) l x : In x l -> p x = true -> (1 <= countb p l)%nat.
Proof.
  unfold countb. induction l as [|a l IH]; intros Hin Hp; [destruct Hin|]. cbn.
  destruct Hin as [->|Hin]; [rewrite Hp; cbn; lia|]. specialize (IH Hin Hp). destruct (p a); cbn; lia.
Qed.

Lemma countb_in_false {A} (p : A -> bool) l x : In x l -> p x = false -> (countb p l + 1 <= length l)%nat.
Proof.
  unfold countb. induction l as [|a l IH]; intros Hin Hp; [destruct Hin|]. cbn.
  destruct Hin as [->|Hin].
  - rewrite Hp. pose proof (countb_le p l) as H. unfold countb in H. lia.
  - specialize (IH Hin Hp). destruct (p a); cbn; lia.
Qed.

Lemma fold_qmin_le : forall B m, fold_left qmin B m <= m /\ forall c, In c B -> fold_left qmin B m <= c.
Proof.
  induction B as [|c0 B IH]; intros m; cbn [fold_left]; [split; [lra|intros c []]|].
  destruct (IH (qmin m c0)) as [H1 H2].
  assert (Hq : qmin m c0 <= m /\ qmin m c0 <= c0).
  { unfold qmin. destruct (Qle_bool c0 m) eqn:E; [apply Qle_bool_iff in E; split; lra|].
    split; [lra|]. apply Qlt_le_weak, Qnot_le_lt. intros Hc. apply Qle_bool_iff in Hc. congruence. }
  split; [lra|]. intros c [<-|Hc]; [lra|apply H2; exact Hc].
Qed.

Lemma all_le_spec e A B : all_le e A B = true -> forall a c, In a A -> In c B -> a <= c + e.
Proof.
  unfold all_le. intros H a c Ha Hc. destruct B as [|c0 B']; [destruct Hc|].
  rewrite forallb_forall in H. specialize (H a Ha). unfold Qleb in H. apply Qle_bool_iff in H.
  rewrite Qred_correct in H. destruct (fold_qmin_le B' c0) as [H1 H2].
  destruct Hc as [<-|Hc]; [lra|specialize (H2 c Hc); lra].
Qed.

Lemma Qltb_true p b : Qltb p b = true <-> p < b.
Proof.
  unfold Qltb. rewrite negb_true_iff. split.
  - intros H. apply Qnot_le_lt. intros Hle. apply Qle_bool_iff in Hle. congruence.
  - intros H. destruct (Qle_bool b p) eqn:E; [|reflexivity]. apply Qle_bool_iff in E. lra.
Qed.
Lemma Qleb_true p b : Qleb p b = true <-> p <= b.
Proof. unfold Qleb. apply Qle_bool_iff. Qed.
Lemma Qleb_false p b : Qleb p b = false <-> b < p.
Proof.
  unfold Qleb. split.
  - intros H. apply Qnot_le_lt. intros Hle. apply Qle_bool_iff in Hle. congruence.
  - intros H. destruct (Qle_bool p b) eqn:E; [|reflexivity]. apply Qle_bool_iff in E. lra.
Qed.

(* rank split vs threshold: a sample that went right only is not below the threshold by more than 2e,
   a sample that went left only is not above it by more than 2e.  Odd and even node sizes alike. *)
Theorem rank_vs_threshold e b lu ov ru : 0 <= e ->
  rank_split_okb e b lu ov ru = true ->
  (forall p, In p ru -> ~ p + 2 * e < b) /\ (forall p, In p lu -> ~ b + 2 * e < p).
Proof.
  intros He H. unfold rank_split_okb in H.
  repeat (apply andb_prop in H as [H ?]).
  match goal with Hm : lower_median_okb _ _ _ = true |- _ => unfold lower_median_okb in Hm; apply andb_prop in Hm as [Hlt Hle] end.
  match goal with H1 : all_le e (lu ++ ov) ru = true |- _ => pose proof (all_le_spec _ _ _ H1) as Hlo end.
  match goal with H1 : all_le e lu (ov ++ ru) = true |- _ => pose proof (all_le_spec _ _ _ H1) as Hul end.
  apply Z.eqb_eq in H. match goal with H1 : (_ =? right_unique _ _)%Z = true |- _ => apply Z.eqb_eq in H1; rename H1 into Hru end.
  apply Nat.leb_le in Hlt, Hle.
  rewrite !app_length in Hlt, Hle.
  unfold left_unique, right_unique, remaining in *.
  split.
  - intros p Hp Hbad.
    assert (C1 : countb (fun q => Qltb (q + e) b) (lu ++ ov) = length (lu ++ ov)).
    { apply countb_all. intros q Hq. apply Qltb_true. specialize (Hlo q p Hq Hp). lra. }
    assert (C2 : (1 <= countb (fun q => Qltb (q + e) b) ru)%nat).
    { apply (countb_in_true _ _ p Hp). apply Qltb_true. lra. }
    rewrite app_assoc, countb_app, C1, app_length in Hlt. lia.
  - intros p Hp Hbad.
    assert (C1 : countb (fun q => Qleb q (b + e)) (ov ++ ru) = 0%nat).
    { apply countb_none. intros q Hq. apply Qleb_false. specialize (Hul p q Hp Hq). lra. }
    assert (C2 : (countb (fun q => Qleb q (b + e)) lu + 1 <= length lu)%nat).
    { apply (countb_in_false _ _ p Hp). apply Qleb_false. lra. }
    rewrite countb_app, C1 in Hle. lia.
Qed.

Section TreeLevel.
  Variable X : nat -> list Q.

  Lemma memb_In i l : memb i l = true <-> In i l.
  Proof.
    unfold memb. rewrite existsb_exists. split.
    - intros [x [Hx E]]. apply Nat.eqb_eq in E. subst. exact Hx.
    - intros H. exists i. split; [exact H|apply Nat.eqb_refl].
  Qed.

  Theorem routing_agrees e : 0 <= e -> forall t i,
    tokb X e t = true -> In i (tids t) -> untied e t (X i) -> In i (route (erase t) (X i)).
  Proof.
    intros He. induction t as [ids|ids v b l IHl r IHr]; intros i Hok Hin Hun; cbn [erase route tids] in *; [exact Hin|].
    cbn [tokb] in Hok. repeat (apply andb_prop in Hok as [Hok ?]).
    cbn [untied] in Hun. destruct Hun as [Hband Hun].
    rewrite forallb_forall in Hok. specialize (Hok i Hin). apply orb_prop in Hok.
    match goal with Hr : rank_split_okb _ _ _ _ _ = true |- _ => destruct (rank_vs_threshold _ _ _ _ _ He Hr) as [Hru Hlu] end.
    destruct (goes_left (dot (X i) v) b) eqn:G.
    - apply IHl; [assumption| |exact Hun].
      destruct (memb i (tids l)) eqn:ML; [apply memb_In; exact ML|exfalso].
      destruct Hok as [Hok|Hok]; [discriminate|].
      assert (Hp : In (Qred (dot (X i) v)) (projs_of X v (filter (fun j => negb (memb j (tids l))) (tids r)))).
      { unfold projs_of. apply in_map_iff. exists i. split; [reflexivity|]. apply filter_In. split; [apply memb_In; exact Hok|rewrite ML; reflexivity]. }
      apply (Hru _ Hp). rewrite Qred_correct. unfold goes_left in G. apply Qle_bool_iff in G.
      apply Qnot_le_lt. intros Hc. apply Hband. split; lra.
    - apply IHr; [assumption| |exact Hun].
      destruct (memb i (tids r)) eqn:MR; [apply memb_In; exact MR|exfalso].
      destruct Hok as [Hok|Hok]; [|discriminate].
      assert (Hp : In (Qred (dot (X i) v)) (projs_of X v (filter (fun j => negb (memb j (tids r))) (tids l)))).
      { unfold projs_of. apply in_map_iff. exists i. split; [reflexivity|]. apply filter_In. split; [apply memb_In; exact Hok|rewrite MR; reflexivity]. }
      apply (Hlu _ Hp). rewrite Qred_correct. assert (Hgt : b < dot (X i) v).
      { apply Qnot_le_lt. intros Hc. apply Qle_bool_iff in Hc. unfold goes_left in G. congruence. }
      apply Qnot_le_lt. intros Hc. apply Hband. split; lra.
  Qed.

  Lemma untiedb_sound e t x : untiedb e t x = true -> untied e t x.
  Proof.
    induction t as [ids|ids v b l IHl r IHr]; cbn; [trivial|]. intros H. apply andb_prop in H as [H1 H2]. split.
    - intros [Ha Hb]. apply negb_true_iff in H1. apply andb_false_iff in H1.
      destruct H1 as [H1|H1]; apply Qleb_false in H1; lra.
    - destruct (goes_left (dot x v) b); auto.
  Qed.
End TreeLevel.

(* ---------- the deterministic instance satisfies the relation (the checker is not vacuous: it accepts what a sort-and-slice does) ---------- *)
Definition asc (s : list Q) : Prop := forall i j, (i <= j < length s)%nat -> nth i s 0 <= nth j s 0.

Lemma fold_qmin_in : forall B m, In (fold_left qmin B m) (m :: B).
Proof.
  induction B as [|c B IH]; intros m; cbn [fold_left]; [left; reflexivity|].
  assert (Hq : qmin m c = c \/ qmin m c = m) by (unfold qmin; destruct (Qle_bool c m); [left|right]; reflexivity).
  destruct (IH (qmin m c)) as [H|H].
  - destruct Hq as [Hq|Hq]; rewrite Hq in H at 1; [right; left; exact H|left; exact H].
  - right. right. exact H.
Qed.

Lemma all_le_complete e A B : (forall a c, In a A -> In c B -> a <= c + e) -> all_le e A B = true.
Proof.
  intros H. unfold all_le. destruct B as [|c0 B']; [reflexivity|].
  apply forallb_forall. intros a Ha. apply Qleb_true. rewrite Qred_correct.
  apply H; [exact Ha|]. apply fold_qmin_in.
Qed.

Lemma in_firstn_nth (s : list Q) k x : In x (firstn k s) -> exists i, (i < k /\ i < length s)%nat /\ x = nth i s 0.
Proof.
  revert k. induction s as [|a s IH]; intros k Hx; [rewrite firstn_nil in Hx; destruct Hx|].
  destruct k as [|k]; [destruct Hx|]. cbn [firstn] in Hx. destruct Hx as [<-|Hx].
  - exists 0%nat. cbn. split; [lia|reflexivity].
  - destruct (IH k Hx) as [i [[H1 H2] ->]]. exists (S i). cbn. split; [lia|reflexivity].
Qed.

Lemma in_skipn_nth (s : list Q) k x : In x (skipn k s) -> exists i, (k <= i < length s)%nat /\ x = nth i s 0.
Proof.
  revert k. induction s as [|a s IH]; intros k Hx; [rewrite skipn_nil in Hx; destruct Hx|].
  destruct k as [|k].
  - cbn [skipn] in Hx. destruct (In_nth _ _ 0 Hx) as [i [Hi <-]]. exists i. split; [lia|reflexivity].
  - cbn [skipn] in Hx. destruct (IH k Hx) as [i [Hi ->]]. exists (S i). cbn. split; [lia|reflexivity].
Qed.

Lemma asc_firstn_skipn (s : list Q) k1 k2 a c : asc s -> (k1 <= k2)%nat -> In a (firstn k1 s) -> In c (skipn k2 s) -> a <= c + 0.
Proof.
  intros Hs Hk Ha Hc. destruct (in_firstn_nth _ _ _ Ha) as [i [[Hi1 Hi2] ->]]. destruct (in_skipn_nth _ _ _ Hc) as [j [Hj ->]].
  specialize (Hs i j ltac:(lia)). lra.
Qed.

(* counting through positions: in an ascending list the elements below the element at position r sit before r,
   and the first r+1 positions are <= it *)
Lemma countb_firstn_skipn {A} (p : A -> bool) (s : list A) r : countb p s = (countb p (firstn r s) + countb p (skipn r s))%nat.
Proof. rewrite <- (firstn_skipn r s) at 1. apply countb_app. Qed.

Lemma asc_count_lt (s : list Q) r : asc s -> (r < length s)%nat ->
  (countb (fun p => Qltb (p + 0)%Q (nth r s 0%Q)) s <= r)%nat.
Proof.
  intros Hs Hr. rewrite (countb_firstn_skipn _ s r).
  rewrite (countb_none _ (skipn r s)).
  - pose proof (countb_le (fun p => Qltb (p + 0) (nth r s 0)) (firstn r s)) as H. rewrite firstn_length in H. lia.
  - intros x Hx. destruct (in_skipn_nth _ _ _ Hx) as [j [Hj ->]]. specialize (Hs r j ltac:(lia)).
    destruct (Qltb (nth j s 0 + 0) (nth r s 0)) eqn:E; [|reflexivity]. apply Qltb_true in E. lra.
Qed.

Lemma asc_count_le (s : list Q) r : asc s -> (r < length s)%nat ->
  (r + 1 <= countb (fun p => Qleb p (nth r s 0%Q + 0)%Q) s)%nat.
Proof.
  intros Hs Hr. rewrite (countb_firstn_skipn _ s (S r)).
  rewrite (countb_all _ (firstn (S r) s)).
  - rewrite firstn_length. lia.
  - intros x Hx. destruct (in_firstn_nth _ _ _ Hx) as [i [[Hi1 Hi2] ->]]. specialize (Hs i r ltac:(lia)).
    apply Qleb_true. lra.
Qed.

Lemma skipn_skipn_add {A} a b (l : list A) : skipn a (skipn b l) = skipn (a + b) l.
Proof.
  revert l. induction b as [|b IH]; intros l; [rewrite Nat.add_0_r; reflexivity|].
  destruct l as [|x l]; [rewrite !skipn_nil; reflexivity|]. rewrite Nat.add_succ_r. cbn [skipn]. apply IH.
Qed.
Lemma firstn_add_split {A} a b (l : list A) : firstn (a + b) l = firstn a l ++ firstn b (skipn a l).
Proof.
  revert l. induction a as [|a IH]; intros l; [reflexivity|].
  destruct l as [|x l]; [rewrite firstn_nil; cbn; rewrite firstn_nil; reflexivity|]. cbn. f_equal. apply IH.
Qed.

Theorem model_split_accepted (s : list Q) (o : Z) : asc s -> (0 <= o <= Z.of_nat (length s))%Z -> s <> [] ->
  rank_split_okb 0 (model_median s) (model_lu s o) (model_ov s o) (model_ru s o) = true.
Proof.
  intros Hs Ho Hne.
  assert (Hn : (1 <= length s)%nat) by (destruct s; [congruence|cbn; lia]).
  set (n := Z.of_nat (length s)) in *.
  assert (Hlu : (0 <= left_unique n o <= n)%Z) by (unfold left_unique, remaining; lia).
  assert (Hoe : (left_unique n o <= overlap_end n o <= n)%Z) by (unfold overlap_end, overlap_start, left_unique, remaining in *; lia).
  assert (L1 : length (model_lu s o) = Z.to_nat (left_unique n o)).
  { unfold model_lu. fold n. rewrite firstn_length. lia. }
  assert (L2 : length (model_ov s o) = Z.to_nat o).
  { unfold model_ov. fold n. rewrite firstn_length, skipn_length.
    unfold overlap_end, overlap_start in Hoe. lia. }
  assert (L3 : length (model_ru s o) = Z.to_nat (n - overlap_end n o)).
  { unfold model_ru. fold n. rewrite skipn_length. lia. }
  assert (E1 : model_ov s o ++ model_ru s o = skipn (Z.to_nat (left_unique n o)) s).
  { unfold model_ov, model_ru. fold n.
    replace (Z.to_nat (overlap_end n o)) with (Z.to_nat o + Z.to_nat (left_unique n o))%nat
      by (unfold overlap_end, overlap_start; lia).
    rewrite <- skipn_skipn_add. apply firstn_skipn. }
  assert (E2 : model_lu s o ++ model_ov s o = firstn (Z.to_nat (overlap_end n o)) s).
  { unfold model_lu, model_ov. fold n.
    replace (Z.to_nat (overlap_end n o)) with (Z.to_nat (left_unique n o) + Z.to_nat o)%nat
      by (unfold overlap_end, overlap_start; lia).
    rewrite firstn_add_split. reflexivity. }
  assert (E3 : model_lu s o ++ model_ov s o ++ model_ru s o = s).
  { rewrite E1. unfold model_lu. fold n. apply firstn_skipn. }
  unfold rank_split_okb. rewrite L1, L2, L3, E3, E1, E2.
  replace (Z.of_nat (Z.to_nat (left_unique n o) + Z.to_nat o + Z.to_nat (n - overlap_end n o))) with n
    by (unfold overlap_end, overlap_start in *; lia).
  replace (Z.of_nat (Z.to_nat o)) with o by lia.
  repeat (apply andb_true_intro; split).
  - apply Z.eqb_eq. lia.
  - apply Z.eqb_eq. unfold overlap_end, overlap_start, right_unique, left_unique, remaining in *. lia.
  - apply all_le_complete. intros a c Ha Hc. unfold model_lu in Ha. fold n in Ha.
    eapply asc_firstn_skipn; [exact Hs| |exact Ha|exact Hc]. lia.
  - apply all_le_complete. intros a c Ha Hc. unfold model_ru in Hc. fold n in Hc.
    eapply asc_firstn_skipn; [exact Hs| |exact Ha|exact Hc]. lia.
  - assert (Hr : ((length s - 1) / 2 < length s)%nat) by (pose proof (Nat.div_le_upper_bound (length s - 1) 2 (length s - 1)); lia).
    apply Nat.leb_le. unfold model_median. apply asc_count_lt; assumption.
  - assert (Hr : ((length s - 1) / 2 < length s)%nat) by (pose proof (Nat.div_le_upper_bound (length s - 1) 2 (length s - 1)); lia).
    apply Nat.leb_le. unfold model_median. apply asc_count_le; assumption.
Qed.

(* non-vacuity: an ascending list with ties around the median, overlap 2 *)
Example model_split_accepted_example :
  rank_split_okb 0 (model_median [1#2; 1; 1; 1; 3; 7#2; 4]) (model_lu [1#2; 1; 1; 1; 3; 7#2; 4] 2)
                 (model_ov [1#2; 1; 1; 1; 3; 7#2; 4] 2) (model_ru [1#2; 1; 1; 1; 3; 7#2; 4] 2) = true.
Proof. vm_compute. reflexivity. Qed.
