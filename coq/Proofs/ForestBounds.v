(* ForestBounds — C06, the two developments COMPOSED.
   * Properties/C06.v   : what ONE run of the recursion `build` (Model/Split.v) guarantees;
   * Properties/C06b.v  : WHICH constructed trees a fitted model holds (Model/TreeIter.v: `tree_iterations`, `forest`), for abstract trees T.
   Here T := Split.shape and every construction (the first build and every rebuild of every tree) is a result of
   `build (Z.to_nat n) L ov quota 0 n` (xRFM.fit hands the same X, hence the same n, to every construction).  Then
     1. the tree kept by `_build_tree_with_iterations` has bounded, balanced leaves and at most 1 + n_tree_iters constructions happen;
        since `build` is a function all constructions have ONE shape (nothing depends on the projection values, the scores, the clock);
     2. the kept tree obeys the depth bound (zero overlap, no quota) / honours the split quota (quota configured);
     3. every tree `fit` holds obeys 1, at most n_trees are held, the whole fit calls `build` at most n_trees * (1 + n_tree_iters) times,
        and has_split = false (no temperature tuning) iff n <= L, in which case the model is the single leaf SLeaf n;
     4. a computed instance (n = 37, L = 5).
   Everything over nat / Z / lists: no axioms. *)
From Coq Require Import ZArith List Bool Lia Arith.
Require Import XV.Model.Split XV.Proofs.SplitProofs XV.Properties.C06.
Require Import XV.Model.TreeIter XV.Proofs.TreeIterProofs XV.Properties.C06b.
Import ListNotations.
Open Scope Z_scope.

(* ---------- vocabulary ---------- *)
Definition is_leaf_shape (s : shape) : bool := match s with SLeaf _ => true | SNode _ _ _ => false end.

(* s is what _build_tree returns on n samples (fuel n is enough by C06; the returned counter is the number of splits) *)
Definition built (L : Z) (ov : Z -> Z) (quota : option Z) (n : Z) (s : shape) : Prop :=
  build (Z.to_nat n) L ov quota 0 n = Ok s (nsplits s).

(* the conjunction C06_terminates_with_bounded_leaves gives *)
Definition leaf_bounded (L : Z) (ov : Z -> Z) (n : Z) (s : shape) : Prop :=
  size_of s = n /\ shape_ok L ov s = true /\ splits_needed L s = true /\ Forall (fun k => k <= L) (leaves s).

(* the tree _build_tree_with_iterations returns, and the number of constructions it performed *)
Definition kept {Sc : Type} (better : Sc -> Sc -> bool) (rebuild : nat -> shape -> shape) (score : shape -> Sc) (tl : nat -> bool)
  (k : nat) (t0 : shape) : shape := ti_best shape Sc (tree_iterations shape Sc better rebuild score tl k t0).
Definition nbuilds {Sc : Type} (better : Sc -> Sc -> bool) (rebuild : nat -> shape -> shape) (score : shape -> Sc) (tl : nat -> bool)
  (k : nat) (t0 : shape) : nat := ti_builds shape Sc (tree_iterations shape Sc better rebuild score tl k t0).

(* ---------- `build` is a function of (L, ov, quota, n): fuel does not matter once it suffices ---------- *)
Lemma build_fuel_mono : forall f L ov quota cnt n s c,
  build f L ov quota cnt n = Ok s c -> forall f', (f <= f')%nat -> build f' L ov quota cnt n = Ok s c.
Proof.
  induction f as [|f IH]; intros L ov quota cnt n s c H f' Hf; [discriminate|].
  destruct f' as [|f']; [lia|]. cbn [build] in H |- *.
  destruct ((n <=? L) && match quota with None => true | Some q => q <=? cnt end); [exact H|].
  destruct ((left_size n (ov n) <=? 0) || (right_size n (ov n) <=? 0)); [discriminate|].
  destruct (build f L ov quota (cnt + 1) (left_size n (ov n))) as [l c1| |] eqn:El; try discriminate.
  destruct (build f L ov quota c1 (right_size n (ov n))) as [r c2| |] eqn:Er; try discriminate.
  rewrite (IH _ _ _ _ _ _ _ El f' ltac:(lia)), (IH _ _ _ _ _ _ _ Er f' ltac:(lia)). exact H.
Qed.

Lemma build_result_unique : forall f1 f2 L ov quota cnt n s1 c1 s2 c2,
  build f1 L ov quota cnt n = Ok s1 c1 -> build f2 L ov quota cnt n = Ok s2 c2 -> s1 = s2 /\ c1 = c2.
Proof.
  intros f1 f2 L ov quota cnt n s1 c1 s2 c2 H1 H2.
  pose proof (build_fuel_mono _ _ _ _ _ _ _ _ H1 (Nat.max f1 f2) ltac:(lia)) as E1.
  pose proof (build_fuel_mono _ _ _ _ _ _ _ _ H2 (Nat.max f1 f2) ltac:(lia)) as E2.
  rewrite E1 in E2. injection E2 as -> ->. split; reflexivity.
Qed.

(* a successful run with any fuel IS the run with fuel n, provided fuel n succeeds; and any success has counter = nsplits *)
Lemma built_of_Ok : forall L ov quota n s c, build (Z.to_nat n) L ov quota 0 n = Ok s c -> built L ov quota n s.
Proof. intros L ov quota n s c H. unfold built. destruct (build_count _ _ _ _ _ _ _ _ H) as [E _]. rewrite H. f_equal. lia. Qed.

Lemma built_unique : forall L ov quota n s1 s2, built L ov quota n s1 -> built L ov quota n s2 -> s1 = s2.
Proof. unfold built. intros L ov quota n s1 s2 H1 H2. rewrite H1 in H2. injection H2 as E _. exact E. Qed.

(* without a quota a node is split only when it is larger than L: holds of EVERY successful run, no side condition *)
Lemma build_None_splits_needed : forall fuel L ov cnt n s c,
  build fuel L ov None cnt n = Ok s c -> splits_needed L s = true.
Proof.
  induction fuel as [|f IH]; intros L ov cnt n s c H; [discriminate|]. cbn [build] in H. rewrite andb_true_r in H.
  destruct (n <=? L) eqn:E.
  - inversion H; subst. reflexivity.
  - destruct ((left_size n (ov n) <=? 0) || (right_size n (ov n) <=? 0)); [discriminate|].
    destruct (build f L ov None (cnt + 1) (left_size n (ov n))) as [l c1| |] eqn:El; try discriminate.
    destruct (build f L ov None c1 (right_size n (ov n))) as [r c2| |] eqn:Er; try discriminate.
    inversion H; subst. cbn [splits_needed]. rewrite (IH _ _ _ _ _ _ El), (IH _ _ _ _ _ _ Er).
    apply Z.leb_gt in E. apply Z.ltb_lt in E. rewrite E. reflexivity.
Qed.

(* C06 restated on `built` *)
Lemma built_exists : forall L ov n, ov_ok L ov -> 1 <= n -> exists s, built L ov None n s /\ leaf_bounded L ov n s.
Proof.
  intros L ov n Hov Hn. destruct (C06_terminates_with_bounded_leaves L ov n Hov Hn) as (s & E & H).
  exists s. split; [exact E|exact H].
Qed.

Lemma built_leaf_bounded : forall L ov n s, ov_ok L ov -> 1 <= n -> built L ov None n s -> leaf_bounded L ov n s.
Proof.
  intros L ov n s Hov Hn Hb. destruct (built_exists L ov n Hov Hn) as (s' & Hb' & H).
  rewrite (built_unique _ _ _ _ _ _ Hb Hb'). exact H.
Qed.

(* the same conclusion needs neither ov_ok nor 1 <= n once a successful run is GIVEN (those two hypotheses are what makes a run succeed) *)
Lemma built_leaf_bounded_unconditional : forall L ov n s, built L ov None n s -> leaf_bounded L ov n s.
Proof.
  unfold built, leaf_bounded. intros L ov n s H.
  pose proof (build_shape_ok _ _ _ _ _ _ _ _ H) as Hok.
  repeat split.
  - eapply build_shape_sizes; exact H.
  - exact Hok.
  - eapply build_None_splits_needed; exact H.
  - eapply shape_ok_leaves; exact Hok.
Qed.

(* ================= 1. the tree kept by the tree-iteration loop ================= *)

(* all constructions have one shape; so do the list of rebuilt trees and the kept tree — for every score, comparison and clock *)
Theorem all_builds_have_one_shape : forall L ov quota n (Sc : Type) (better : Sc -> Sc -> bool) (rebuild : nat -> shape -> shape)
    (score : shape -> Sc) (tl : nat -> bool) (k : nat) (t0 : shape),
  built L ov quota n t0 -> (forall i prev, built L ov quota n (rebuild i prev)) ->
  (forall i prev, rebuild i prev = t0) /\
  (forall t, In t (t0 :: iterates shape rebuild (ti_cut tl k 0) 0 t0) -> t = t0) /\
  kept better rebuild score tl k t0 = t0.
Proof.
  intros L ov quota n Sc better rebuild score tl k t0 H0 Hr.
  assert (R : forall i prev, rebuild i prev = t0) by (intros i prev; eapply built_unique; [apply Hr|exact H0]).
  assert (K : kept better rebuild score tl k t0 = t0).
  { unfold kept. apply (C06_kept_tree_inherits_what_every_construction_guarantees shape Sc better rebuild score tl (fun t => t = t0));
      [reflexivity|exact R]. }
  split; [exact R|]. split; [|exact K].
  intros t [<-|Hin]; [reflexivity|].
  assert (G : forall c i prev, In t (iterates shape rebuild c i prev) -> t = t0).
  { induction c as [|c IH]; intros i prev Hi; cbn in Hi; [contradiction|].
    destruct Hi as [<-|Hi]; [apply R|eapply IH; exact Hi]. }
  eapply G; exact Hin.
Qed.

Theorem held_tree_bounds : forall L ov n, ov_ok L ov -> 1 <= n ->
  forall (Sc : Type) (better : Sc -> Sc -> bool) (rebuild : nat -> shape -> shape) (score : shape -> Sc) (tl : nat -> bool)
         (n_tree_iters : nat) (t0 : shape),
  built L ov None n t0 -> (forall i prev, built L ov None n (rebuild i prev)) ->
  leaf_bounded L ov n (kept better rebuild score tl n_tree_iters t0) /\
  built L ov None n (kept better rebuild score tl n_tree_iters t0) /\
  (nbuilds better rebuild score tl n_tree_iters t0 <= 1 + n_tree_iters)%nat.
Proof.
  intros L ov n Hov Hn Sc better rebuild score tl k t0 H0 Hr.
  assert (B : built L ov None n (kept better rebuild score tl k t0)).
  { unfold kept. apply (C06_kept_tree_inherits_what_every_construction_guarantees shape Sc better rebuild score tl (built L ov None n));
      [exact H0|exact Hr]. }
  split; [apply built_leaf_bounded; assumption|]. split; [exact B|].
  unfold nbuilds. apply C06_tree_iterations_terminate.
Qed.

(* minimal-hypothesis form: ov_ok and 1 <= n only serve to make the hypotheses satisfiable (built_exists); they are not needed to transfer the bounds *)
Theorem held_tree_bounds_unconditional : forall L ov n
         (Sc : Type) (better : Sc -> Sc -> bool) (rebuild : nat -> shape -> shape) (score : shape -> Sc) (tl : nat -> bool)
         (n_tree_iters : nat) (t0 : shape),
  built L ov None n t0 -> (forall i prev, built L ov None n (rebuild i prev)) ->
  leaf_bounded L ov n (kept better rebuild score tl n_tree_iters t0) /\
  kept better rebuild score tl n_tree_iters t0 = t0 /\
  (nbuilds better rebuild score tl n_tree_iters t0 <= 1 + n_tree_iters)%nat.
Proof.
  intros L ov n Sc better rebuild score tl k t0 H0 Hr.
  destruct (all_builds_have_one_shape L ov None n Sc better rebuild score tl k t0 H0 Hr) as (_ & _ & K).
  rewrite K. split; [apply built_leaf_bounded_unconditional; exact H0|]. split; [reflexivity|].
  unfold nbuilds. apply C06_tree_iterations_terminate.
Qed.

(* the hypotheses of held_tree_bounds are satisfiable exactly as C06 says: under ov_ok and 1 <= n the recursion does return a shape *)
Theorem held_tree_bounds_not_vacuous : forall L ov n, ov_ok L ov -> 1 <= n ->
  exists s, built L ov None n s /\
    forall (Sc : Type) (better : Sc -> Sc -> bool) (score : shape -> Sc) (tl : nat -> bool) (k : nat),
      kept better (fun _ _ => s) score tl k s = s /\ leaf_bounded L ov n s.
Proof.
  intros L ov n Hov Hn. destruct (built_exists L ov n Hov Hn) as (s & Hb & Hl). exists s. split; [exact Hb|].
  intros Sc better score tl k. split; [|exact Hl].
  apply (all_builds_have_one_shape L ov None n Sc better (fun _ _ => s) score tl k s Hb (fun _ _ => Hb)).
Qed.

(* ================= 2. depth bound / split quota for the kept tree ================= *)

Theorem held_tree_depth_bound : forall L n, 1 <= L -> 1 <= n ->
  forall (Sc : Type) (better : Sc -> Sc -> bool) (rebuild : nat -> shape -> shape) (score : shape -> Sc) (tl : nat -> bool)
         (n_tree_iters : nat) (t0 : shape),
  built L (fun _ => 0) None n t0 -> (forall i prev, built L (fun _ => 0) None n (rebuild i prev)) ->
  (height (kept better rebuild score tl n_tree_iters t0) <= clog n L)%nat /\
  leaf_bounded L (fun _ => 0) n (kept better rebuild score tl n_tree_iters t0).
Proof.
  intros L n HL Hn Sc better rebuild score tl k t0 H0 Hr.
  assert (Hov : ov_ok L (fun _ => 0)) by (intros m Hm; lia).
  destruct (held_tree_bounds L (fun _ => 0) n Hov Hn Sc better rebuild score tl k t0 H0 Hr) as (Hl & Hb & _).
  split; [|exact Hl].
  destruct (C06_depth_bound L n HL Hn) as (s & c & E & Hh).
  apply built_of_Ok in E. rewrite (built_unique _ _ _ _ _ _ Hb E). exact Hh.
Qed.

(* quota configured: constructions are successful runs of `build ... (Some q) 0 n` with ANY fuel (C06_split_quota_honoured is fuel-agnostic).
   The kept tree honours the quota, is locally balanced, spans the n samples, has leaves <= L, and again equals the first build. *)
Theorem held_tree_quota_honoured : forall L ov q n
         (Sc : Type) (better : Sc -> Sc -> bool) (rebuild : nat -> shape -> shape) (score : shape -> Sc) (tl : nat -> bool)
         (n_tree_iters : nat) (t0 : shape),
  (exists fuel c, build fuel L ov (Some q) 0 n = Ok t0 c) ->
  (forall i prev, exists fuel c, build fuel L ov (Some q) 0 n = Ok (rebuild i prev) c) ->
  let t := kept better rebuild score tl n_tree_iters t0 in
  q <= nsplits t /\ shape_ok L ov t = true /\ size_of t = n /\ Forall (fun k => k <= L) (leaves t) /\ t = t0 /\
  (nbuilds better rebuild score tl n_tree_iters t0 <= 1 + n_tree_iters)%nat.
Proof.
  intros L ov q n Sc better rebuild score tl k t0 (f0 & c0 & H0) Hr. cbv zeta.
  assert (K : kept better rebuild score tl k t0 = t0).
  { unfold kept. apply (C06_kept_tree_inherits_what_every_construction_guarantees shape Sc better rebuild score tl (fun t => t = t0));
      [reflexivity|]. intros i prev. destruct (Hr i prev) as (f & c & E).
    destruct (build_result_unique _ _ _ _ _ _ _ _ _ _ _ E H0) as [Es _]. exact Es. }
  rewrite K. destruct (C06_split_quota_honoured _ _ _ _ _ _ _ H0) as (Hq & Hok & Hs).
  repeat split; try assumption; [eapply shape_ok_leaves; exact Hok|].
  unfold nbuilds. apply C06_tree_iterations_terminate.
Qed.

(* and under the feasibility conditions of C06_terminates_with_forced_splits such constructions exist (fuel n), so the kept tree is THE tree of that run *)
Theorem held_tree_forced_splits : forall L ov q n, 1 <= L -> ov_ok2 ov -> 0 <= q -> 1 <= n -> 2 ^ q <= n ->
  exists s, built L ov (Some q) n s /\ q <= nsplits s /\ shape_ok L ov s = true /\
    forall (Sc : Type) (better : Sc -> Sc -> bool) (rebuild : nat -> shape -> shape) (score : shape -> Sc) (tl : nat -> bool)
           (n_tree_iters : nat) (t0 : shape),
      (exists fuel c, build fuel L ov (Some q) 0 n = Ok t0 c) ->
      (forall i prev, exists fuel c, build fuel L ov (Some q) 0 n = Ok (rebuild i prev) c) ->
      kept better rebuild score tl n_tree_iters t0 = s.
Proof.
  intros L ov q n HL Hov Hq Hn Hp.
  destruct (C06_terminates_with_forced_splits L ov q n HL Hov Hq Hn Hp) as (s & c & E & Hqs & Hok).
  exists s. split; [eapply built_of_Ok; exact E|]. split; [exact Hqs|]. split; [exact Hok|].
  intros Sc better rebuild score tl k t0 H0 Hr.
  destruct (held_tree_quota_honoured L ov q n Sc better rebuild score tl k t0 H0 Hr) as (_ & _ & _ & _ & K & _).
  cbv zeta in K. rewrite K. destruct H0 as (f0 & c0 & H0).
  destruct (build_result_unique _ _ _ _ _ _ _ _ _ _ _ H0 E) as [Es _]. exact Es.
Qed.

(* with a quota `splits_needed` is NOT part of what the kept tree satisfies: forced splits cut nodes that already fit in a leaf *)
Example quota_tree_splits_small_nodes :
  exists s c, build 20 100 (fun _ => 0) (Some 3) 0 16 = Ok s c /\ splits_needed 100 s = false /\ shape_ok 100 (fun _ => 0) s = true.
Proof. eexists; eexists. vm_compute. repeat split; reflexivity. Qed.

(* ================= 3. the loop over n_trees ================= *)
(* per-tree oracles are indexed by the tree number j: comparison, rebuilds, scores, clock, first build *)
Definition tree_run {Sc : Type} (better : nat -> Sc -> Sc -> bool) (rebuild : nat -> nat -> shape -> shape) (score : nat -> shape -> Sc)
  (tl : nat -> nat -> bool) (k : nat) (t0 : nat -> shape) (j : nat) : ti_state shape Sc :=
  tree_iterations shape Sc (better j) (rebuild j) (score j) (tl j) k (t0 j).

Definition fit_forest {Sc : Type} (better : nat -> Sc -> Sc -> bool) (rebuild : nat -> nat -> shape -> shape) (score : nat -> shape -> Sc)
  (tl : nat -> nat -> bool) (k : nat) (t0 : nat -> shape) (ftl : nat -> bool) (n_trees : nat) : list shape * bool :=
  forest shape is_leaf_shape (fun j => ti_best shape Sc (tree_run better rebuild score tl k t0 j)) ftl n_trees.

(* number of calls of _build_tree at the root during the whole fit: the constructions of every tree that was started (= held) *)
Definition total_builds {Sc : Type} (better : nat -> Sc -> Sc -> bool) (rebuild : nat -> nat -> shape -> shape) (score : nat -> shape -> Sc)
  (tl : nat -> nat -> bool) (k : nat) (t0 : nat -> shape) (ftl : nat -> bool) (n_trees : nat) : nat :=
  fold_right Nat.add 0%nat
    (map (fun j => ti_builds shape Sc (tree_run better rebuild score tl k t0 j))
         (seq 0 (length (fst (fit_forest better rebuild score tl k t0 ftl n_trees))))).

Lemma sum_le_const (f : nat -> nat) (b : nat) : (forall j, f j <= b)%nat ->
  forall l, (fold_right Nat.add 0 (map f l) <= length l * b)%nat.
Proof. intros H. induction l as [|x l IH]; cbn; [lia|]. specialize (H x). lia. Qed.

Lemma small_n_builds_a_leaf : forall L ov quota n, 1 <= n -> n <= L -> (match quota with None => True | Some q => q <= 0 end) ->
  built L ov quota n (SLeaf n).
Proof.
  intros L ov quota n Hn HL Hq. unfold built. destruct (Z.to_nat n) as [|f] eqn:E; [lia|]. cbn [build nsplits].
  replace (n <=? L) with true by (symmetry; apply Z.leb_le; exact HL).
  destruct quota as [q|]; [replace (q <=? 0) with true by (symmetry; apply Z.leb_le; exact Hq)|]; reflexivity.
Qed.

Theorem forest_bounds : forall L ov n, ov_ok L ov -> 1 <= n ->
  forall (Sc : Type) (better : nat -> Sc -> Sc -> bool) (rebuild : nat -> nat -> shape -> shape) (score : nat -> shape -> Sc)
         (tl : nat -> nat -> bool) (n_tree_iters : nat) (t0 : nat -> shape) (ftl : nat -> bool) (n_trees : nat),
  (forall j, built L ov None n (t0 j)) -> (forall j i prev, built L ov None n (rebuild j i prev)) ->
  let F := fit_forest better rebuild score tl n_tree_iters t0 ftl n_trees in
  (* every held tree has bounded, balanced leaves *)
  Forall (leaf_bounded L ov n) (fst F) /\
  (* all held trees are the one shape `build` returns *)
  (exists s, built L ov None n s /\ Forall (fun t => t = s) (fst F)) /\
  (* at most n_trees trees; at least one if one is requested *)
  (length (fst F) <= n_trees)%nat /\ ((0 < n_trees)%nat -> (0 < length (fst F))%nat) /\
  (* the whole fit performs at most n_trees * (1 + n_tree_iters) constructions: fitting terminates *)
  (total_builds better rebuild score tl n_tree_iters t0 ftl n_trees <= n_trees * (1 + n_tree_iters))%nat /\
  (* temperature tuning is skipped iff the data fit into one leaf; then the model is that leaf and routing plays no role *)
  ((0 < n_trees)%nat -> (snd F = false <-> n <= L)) /\
  ((0 < n_trees)%nat -> snd F = false -> fst F = [SLeaf n] /\ n <= L).
Proof.
  intros L ov n Hov Hn Sc better rebuild score tl k t0 ftl n_trees H0 Hr. cbv zeta.
  set (bt := fun j => ti_best shape Sc (tree_run better rebuild score tl k t0 j)).
  assert (EF : fit_forest better rebuild score tl k t0 ftl n_trees = forest shape is_leaf_shape bt ftl n_trees) by reflexivity.
  unfold total_builds. rewrite EF. clear EF. set (F := forest shape is_leaf_shape bt ftl n_trees).
  assert (Hbt : forall j, built L ov None n (bt j) /\ leaf_bounded L ov n (bt j)).
  { intros j. destruct (held_tree_bounds L ov n Hov Hn Sc (better j) (rebuild j) (score j) (tl j) k (t0 j) (H0 j) (Hr j)) as (Hl & Hb & _).
    split; [exact Hb|exact Hl]. }
  destruct (built_exists L ov n Hov Hn) as (s & Hs & _).
  assert (Hone : forall j, bt j = s) by (intros j; eapply built_unique; [apply Hbt|exact Hs]).
  destruct (C06_forest_loop shape is_leaf_shape bt ftl n_trees) as (m & Hm & Hfst & Hsnd & _ & Hpos & _).
  fold F in Hfst, Hsnd.
  assert (Hlen : length (fst F) = m) by (rewrite Hfst, map_length, seq_length; reflexivity).
  assert (Hsingle : (0 < n_trees)%nat -> snd F = false -> fst F = [SLeaf n] /\ n <= L).
  { intros Hnt Hf.
    destruct (C06_no_split_means_a_single_leaf_tree shape is_leaf_shape bt ftl n_trees Hnt Hf) as (E1 & E2).
    fold F in E1.
    destruct (Hbt 0%nat) as (_ & Hsz & Hok & _). destruct (bt 0%nat) as [n'|n' l r] eqn:Eb; [|discriminate].
    cbn in Hsz, Hok. subst n'. apply Z.leb_le in Hok. split; [exact E1|exact Hok]. }
  split; [|split; [|split; [|split; [|split; [|split]]]]].
  - rewrite Hfst. apply Forall_forall. intros t Hin. apply in_map_iff in Hin as (j & <- & _). apply Hbt.
  - exists s. split; [exact Hs|]. rewrite Hfst. apply Forall_forall. intros t Hin. apply in_map_iff in Hin as (j & <- & _). apply Hone.
  - rewrite Hlen. exact Hm.
  - rewrite Hlen. exact Hpos.
  - rewrite Hlen.
    eapply Nat.le_trans.
    + apply (sum_le_const (fun j => ti_builds shape Sc (tree_run better rebuild score tl k t0 j)) (1 + k)).
      intros j. unfold tree_run. apply C06_tree_iterations_terminate.
    + rewrite seq_length. apply Nat.mul_le_mono_r. exact Hm.
  - intros Hnt. split; [intros Hf; apply (Hsingle Hnt Hf)|].
    intros HL. pose proof (small_n_builds_a_leaf L ov None n Hn HL I) as Hleaf.
    assert (E0 : bt 0%nat = SLeaf n) by (eapply built_unique; [apply Hbt|exact Hleaf]).
    unfold F, forest. destruct n_trees as [|nt]; [lia|].
    cbn [forest_loop Nat.ltb Nat.leb andb]. rewrite E0. reflexivity.
  - exact Hsingle.
Qed.

(* the hypothesis 0 < n_trees of the last two clauses is needed: a fit that requests no tree holds nothing and has_split = false although n > L *)
Example forest_no_split_needs_a_requested_tree :
  let s := SNode 3 (SLeaf 2) (SLeaf 1) in
  built 2 (fun _ => 0) None 3 s /\
  fit_forest (fun _ => Nat.ltb) (fun _ _ _ => s) (fun _ _ => 0%nat) (fun _ _ => false) 1 (fun _ => s) (fun _ => false) 0 = ([], false) /\
  ~ (3 <= 2).
Proof. cbv zeta. split; [vm_compute; reflexivity|]. split; [vm_compute; reflexivity|lia]. Qed.

(* consequence: unless the clock fires, a fit on n > L samples holds exactly n_trees copies of the one shape *)
Corollary forest_holds_n_trees_copies : forall L ov n, ov_ok L ov -> 1 <= n -> L < n ->
  forall (Sc : Type) (better : nat -> Sc -> Sc -> bool) (rebuild : nat -> nat -> shape -> shape) (score : nat -> shape -> Sc)
         (tl : nat -> nat -> bool) (n_tree_iters : nat) (t0 : nat -> shape) (ftl : nat -> bool) (n_trees : nat),
  (forall j, built L ov None n (t0 j)) -> (forall j i prev, built L ov None n (rebuild j i prev)) ->
  (forall i, ftl i = false) ->
  exists s, built L ov None n s /\
    fit_forest better rebuild score tl n_tree_iters t0 ftl n_trees = (repeat s n_trees, Nat.ltb 0 n_trees).
Proof.
  intros L ov n Hov Hn HLn Sc better rebuild score tl k t0 ftl n_trees H0 Hr Hclock.
  set (bt := fun j => ti_best shape Sc (tree_run better rebuild score tl k t0 j)).
  destruct (built_exists L ov n Hov Hn) as (s & Hs & (Hsz & Hok & _)).
  assert (Hone : forall j, bt j = s).
  { intros j. destruct (held_tree_bounds L ov n Hov Hn Sc (better j) (rebuild j) (score j) (tl j) k (t0 j) (H0 j) (Hr j)) as (_ & Hb & _).
    eapply built_unique; [exact Hb|exact Hs]. }
  assert (Hnl : is_leaf_shape s = false).
  { destruct s as [n'|n' l r]; [|reflexivity]. cbn in Hsz, Hok. subst n'. apply Z.leb_le in Hok. lia. }
  exists s. split; [exact Hs|]. unfold fit_forest, forest. fold bt.
  assert (G : forall kk i acc hs, forest_loop shape is_leaf_shape bt ftl kk i acc hs = (acc ++ repeat s kk, hs || Nat.ltb 0 kk)).
  { induction kk as [|kk IH]; intros i acc hs; cbn [forest_loop repeat].
    - rewrite app_nil_r, orb_false_r. reflexivity.
    - rewrite Hclock, andb_false_r, Hone, Hnl, IH, <- app_assoc. cbn. rewrite orb_true_r. reflexivity. }
  rewrite G. reflexivity.
Qed.

(* ================= 4. a computed instance: n = 37, L = 5, zero overlap ================= *)
Definition shape37 : shape :=
  SNode 37 (SNode 19 (SNode 10 (SLeaf 5) (SLeaf 5)) (SNode 9 (SLeaf 5) (SLeaf 4)))
           (SNode 18 (SNode 9 (SLeaf 5) (SLeaf 4)) (SNode 9 (SLeaf 5) (SLeaf 4))).

Example forest_bounds_example_37_5 :
  build (Z.to_nat 37) 5 (fun _ => 0) None 0 37 = Ok shape37 7 /\
  nsplits shape37 = 7 /\
  leaves shape37 = [5; 5; 5; 4; 5; 4; 5; 4] /\
  forallb (fun k => k <=? 5) (leaves shape37) = true /\
  height shape37 = 3%nat /\ clog 37 5 = 3%nat /\
  (* 3 trees, 2 tree iterations each (constant scores, so the first build of every tree is kept), no clock: 9 constructions *)
  let rebuild := fun (_ _ : nat) (_ : shape) => match build (Z.to_nat 37) 5 (fun _ => 0) None 0 37 with Ok s _ => s | _ => SLeaf 0 end in
  fit_forest (fun _ => Nat.ltb) rebuild (fun _ _ => 0%nat) (fun _ _ => false) 2 (fun _ => shape37) (fun _ => false) 3
    = ([shape37; shape37; shape37], true) /\
  total_builds (fun _ => Nat.ltb) rebuild (fun _ _ => 0%nat) (fun _ _ => false) 2 (fun _ => shape37) (fun _ => false) 3 = 9%nat.
Proof. vm_compute. repeat split; reflexivity. Qed.

(* the same data in one leaf: L = 40 >= 37 — one tree held although 3 were requested, has_split = false *)
Example forest_bounds_example_single_leaf :
  fit_forest (fun _ => Nat.ltb) (fun _ _ _ => SLeaf 37) (fun _ _ => 0%nat) (fun _ _ => false) 2 (fun _ => SLeaf 37) (fun _ => false) 3
    = ([SLeaf 37], false) /\
  build (Z.to_nat 37) 40 (fun _ => 0) None 0 37 = Ok (SLeaf 37) 0.
Proof. vm_compute. split; reflexivity. Qed.

Print Assumptions all_builds_have_one_shape.
Print Assumptions held_tree_bounds.
Print Assumptions held_tree_bounds_unconditional.
Print Assumptions held_tree_depth_bound.
Print Assumptions held_tree_quota_honoured.
Print Assumptions held_tree_forced_splits.
Print Assumptions forest_bounds.
Print Assumptions forest_holds_n_trees_copies.
