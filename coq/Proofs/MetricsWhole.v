(* C16 at full strength for the WHOLE metrics as dispatched (Model/Metrics.v): accuracy, Brier, F1 (binary / macro),
   AUC (binary / one-vs-rest macro), MSE, MAE.  Exact rationals only; no axioms.

   Findings recorded here (see the Examples at the end):
   - brier_perfect needs NO hypothesis at all (not even well-formedness).
   - the F1 *direction* statement needs NO "every class occurs" hypothesis (a class absent from y scores 0 for every
     prediction); only the *value* statement  f1 y (perfect K y) == 1  needs it.
   - f1 y (perfect K y) == 1 is FALSE without that hypothesis: with K = 3 and y = [0;1] the model's macro F1 is 2/3.
     NOTE model vs code: sklearn's f1_score(average='macro') WITHOUT `labels=` averages over the labels occurring in
     y_true or y_pred, so on this very input sklearn returns 1.0, not 2/3 (checked with sklearn 1.9.1); model and sklearn agree
     as soon as the absent class is predicted at least once (then both give that class F1 = 0), and they agree whenever
     every class occurs in y.  `f1_sk` below is the sklearn variant; both variants satisfy the direction statement.
   - AUC: when a one-vs-rest problem lacks positives or negatives the model's value (0/0 = 0 in Q) is an artefact;
     sklearn raises ValueError there.  The side condition is therefore kept for AUC. *)
From Coq Require Import QArith Qabs List Bool Arith Lia Lqa.
Require Import XV.Model.Tree XV.Model.Soft XV.Model.Labels XV.Model.Metrics XV.Proofs.SoftProofs XV.Proofs.LabelsProofs XV.Proofs.MetricsProofs.
Import ListNotations.
Local Open Scope Q_scope.

(* ================= 1. definitions ================= *)
Definition perfect (K : nat) (y : list nat) : list (list Q) := map (one_hot K) y.

Definition wf_cls (K : nat) (y : list nat) (P : list (list Q)) : Prop :=
  length P = length y /\ Forall (fun r => length r = K) P /\ Forall (fun c => (c < K)%nat) y /\ y <> [].

Definition score (m : metric) (y : list nat) (P : list (list Q)) : Q :=
  match m with Accuracy => accuracy y P | Brier => brier y P | F1 => f1 y P | Auc => auc y P | _ => 0 end.

Definition score_reg (m : metric) (t p : list (list Q)) : Q :=
  match m with Mse => mse t p | Mae => mae t p | _ => 0 end.

(* classes the F1 average runs over all occur in y *)
Definition f1_side (K : nat) (y : list nat) : Prop :=
  if Nat.eqb K 2 then In 1%nat y else forall c, (c < K)%nat -> In c y.

(* the one-vs-rest problem of class c has a positive and a negative sample *)
Definition has_both (c : nat) (y : list nat) : Prop := In c y /\ exists d, In d y /\ d <> c.
Definition auc_side (K : nat) (y : list nat) : Prop :=
  if Nat.eqb K 2 then has_both 1 y else forall c, (c < K)%nat -> has_both c y.

Definition side (m : metric) (K : nat) (y : list nat) : Prop :=
  match m with F1 => f1_side K y | Auc => auc_side K y | _ => True end.
(* what is truly needed for the direction statement *)
Definition side_min (m : metric) (K : nat) (y : list nat) : Prop :=
  match m with Auc => auc_side K y | _ => True end.

(* ================= helpers ================= *)
Lemma wf_P_ne K y P : wf_cls K y P -> P <> [].
Proof. intros [Hl [_ [_ Hne]]] ->. destruct y; [contradiction|discriminate]. Qed.

Lemma wf_nclasses K y P : wf_cls K y P -> nclasses P = K.
Proof.
  intros H. pose proof (wf_P_ne K y P H) as Hne. destruct H as [_ [Hr _]].
  destruct P as [|r P]; [contradiction|]. inversion Hr; subst. reflexivity.
Qed.

Lemma wf_K_pos K y P : wf_cls K y P -> (1 <= K)%nat.
Proof. intros [_ [_ [Hy Hne]]]. destruct y as [|c y]; [contradiction|]. inversion Hy; subst. lia. Qed.

Lemma perfect_ne K y : y <> [] -> perfect K y <> [].
Proof. destruct y; [contradiction|discriminate]. Qed.

Lemma nclasses_perfect K y : y <> [] -> nclasses (perfect K y) = K.
Proof. destruct y as [|c y]; [contradiction|]. intros _. unfold nclasses, perfect. cbn [map hd]. apply one_hot_length. Qed.

Lemma perfect_wf K y : Forall (fun c => (c < K)%nat) y -> y <> [] -> wf_cls K y (perfect K y).
Proof.
  intros Hy Hne. unfold wf_cls, perfect. rewrite map_length. repeat split; try assumption.
  apply Forall_forall. intros r Hr. apply in_map_iff in Hr. destruct Hr as [c [<- _]]. apply one_hot_length.
Qed.

Lemma wf_perfect K y P : wf_cls K y P -> wf_cls K y (perfect K y).
Proof. intros [_ [_ [Hy Hne]]]. apply perfect_wf; assumption. Qed.

(* ---- means ---- *)
Lemma qmean_bounds a b l : l <> [] -> Forall (fun x => a <= x <= b) l -> a <= qmean l <= b.
Proof.
  intros Hne H. unfold qmean. pose proof (inject_len_ge1 l Hne) as Hn.
  assert (Hlo : inject_Z (Z.of_nat (length l)) * a <= qsum l).
  { apply qsum_ge_len. eapply Forall_impl; [|exact H]. intros x [A _]; exact A. }
  assert (Hhi : qsum l <= inject_Z (Z.of_nat (length l)) * b).
  { apply qsum_le_len. eapply Forall_impl; [|exact H]. intros x [_ A]; exact A. }
  set (N := inject_Z (Z.of_nat (length l))) in *. split.
  - apply Qle_shift_div_l; [lra|]. rewrite Qmult_comm. exact Hlo.
  - apply Qle_shift_div_r; [lra|]. rewrite Qmult_comm. exact Hhi.
Qed.

Lemma qmean_nil : qmean [] == 0.
Proof. reflexivity. Qed.

(* entries in [0,1]: also fine for the empty list (0/0 = 0 in Q) *)
Lemma qmean_unit l : Forall (fun x => 0 <= x <= 1) l -> 0 <= qmean l <= 1.
Proof.
  intros H. destruct l as [|x t]; [rewrite qmean_nil; split; lra|]. apply qmean_bounds; [discriminate|exact H].
Qed.

Lemma qmean_const c l : l <> [] -> Forall (fun x => x == c) l -> qmean l == c.
Proof.
  intros Hne H. assert (B : c <= qmean l <= c).
  { apply qmean_bounds; [exact Hne|]. eapply Forall_impl; [|exact H]. cbn. intros x Hx. rewrite Hx. split; lra. }
  destruct B. apply Qle_antisym; assumption.
Qed.

Lemma qsum_map_le {A} (f g : A -> Q) l : (forall x, In x l -> f x <= g x) -> qsum (map f l) <= qsum (map g l).
Proof.
  induction l as [|x l IH]; intros H; [cbn; lra|]. cbn [map qsum].
  pose proof (H x (or_introl eq_refl)). assert (qsum (map f l) <= qsum (map g l)) by (apply IH; intros z Hz; apply H; right; exact Hz). lra.
Qed.

Lemma qmean_map_le {A} (f g : A -> Q) l : (forall x, In x l -> f x <= g x) -> qmean (map f l) <= qmean (map g l).
Proof.
  intros H. unfold qmean. rewrite !map_length. unfold Qdiv. apply Qmult_le_compat_r; [apply qsum_map_le; exact H|].
  apply Qinv_le_0_compat. apply inject_nat_nonneg.
Qed.

(* ---- argmax of one-hot rows ---- *)
Lemma argmax_one_hot K c : (c < K)%nat -> argmax (one_hot K c) = c.
Proof.
  intros H. apply argmax_unique_max.
  - rewrite one_hot_length. exact H.
  - intros j Hj Hne. rewrite one_hot_length in Hj. rewrite !nth_one_hot by assumption. rewrite Nat.eqb_refl.
    destruct (Nat.eqb_spec j c); [contradiction|reflexivity].
Qed.

Lemma map_argmax_perfect K y : Forall (fun c => (c < K)%nat) y -> map argmax (perfect K y) = y.
Proof.
  unfold perfect. induction 1 as [|c y Hc Hy IH]; [reflexivity|]. cbn [map]. rewrite argmax_one_hot by exact Hc. f_equal. exact IH.
Qed.

(* ================= 5. accuracy ================= *)
Theorem accuracy_perfect_whole K y : Forall (fun c => (c < K)%nat) y -> y <> [] -> accuracy y (perfect K y) == 1.
Proof. intros Hy Hne. apply accuracy_perfect; [apply perfect_ne; exact Hne|apply map_argmax_perfect; exact Hy]. Qed.

Theorem accuracy_whole K y P : wf_cls K y P -> 0 <= accuracy y P <= 1 /\ accuracy y (perfect K y) == 1.
Proof.
  intros H. split; [apply accuracy_range; eapply wf_P_ne; exact H|]. destruct H as [_ [_ [Hy Hne]]]. apply accuracy_perfect_whole; assumption.
Qed.

(* ================= 2. Brier ================= *)
(* no hypothesis needed *)
Theorem brier_perfect K y : brier y (perfect K y) == 0.
Proof.
  unfold brier. destruct y as [|c y].
  - change (mse [] [] == 0). apply mse_perfect.
  - rewrite nclasses_perfect by discriminate. apply mse_perfect.
Qed.

Theorem brier_whole K y P : 0 <= brier y P /\ brier y (perfect K y) == 0.
Proof. split; [apply brier_nonneg|apply brier_perfect]. Qed.

(* ================= 3. whole F1 ================= *)
(* the range needs no hypothesis *)
Theorem f1_range y P : 0 <= f1 y P <= 1.
Proof.
  unfold f1. cbv zeta. destruct (Nat.eqb (nclasses P) 2); [apply f1_class_range|].
  apply qmean_unit. apply Forall_forall. intros x Hx. apply in_map_iff in Hx. destruct Hx as [c [<- _]]. apply f1_class_range.
Qed.

(* a class absent from y has F1 = 0 whatever is predicted *)
Lemma f1_class_absent c y yhat : ~ In c y -> f1_class c y yhat == 0.
Proof.
  intros Hn. unfold f1_class.
  assert (Hne : forall x, In x (combine y yhat) -> Nat.eqb (fst x) c = false).
  { intros [a b] Hx. apply in_combine_l in Hx. cbn. apply Nat.eqb_neq. intros ->. contradiction. }
  rewrite (countb2_none (fun a b => Nat.eqb a c && Nat.eqb b c) y yhat) by (intros x Hx; rewrite (Hne x Hx); reflexivity).
  rewrite (countb2_none (fun a b => Nat.eqb a c && negb (Nat.eqb b c)) y yhat) by (intros x Hx; rewrite (Hne x Hx); reflexivity).
  destruct (Nat.eqb _ 0); [reflexivity|]. change (inject_Z (Z.of_nat (2 * 0))) with 0. unfold Qdiv. lra.
Qed.

Lemma f1_class_le_perfect c y yhat : f1_class c y yhat <= f1_class c y y.
Proof.
  destruct (in_dec Nat.eq_dec c y) as [Hin|Hn].
  - rewrite (f1_class_perfect c y Hin). apply f1_class_range.
  - rewrite (f1_class_absent c y yhat Hn). apply f1_class_range.
Qed.

Theorem f1_perfect K y : Forall (fun c => (c < K)%nat) y -> y <> [] -> f1_side K y -> f1 y (perfect K y) == 1.
Proof.
  intros Hy Hne Hs. unfold f1. cbv zeta. rewrite nclasses_perfect by exact Hne. rewrite map_argmax_perfect by exact Hy.
  unfold f1_side in Hs. destruct (Nat.eqb K 2).
  - apply f1_class_perfect. exact Hs.
  - apply qmean_const.
    + destruct K as [|K]; [|cbn; discriminate]. destruct y as [|c y]; [contradiction|]. inversion Hy; subst. lia.
    + apply Forall_forall. intros x Hx. apply in_map_iff in Hx. destruct Hx as [c [<- Hc]]. apply in_seq in Hc.
      apply f1_class_perfect. apply Hs. lia.
Qed.

(* direction: NO side condition needed *)
Theorem f1_direction K y P : wf_cls K y P -> f1 y P <= f1 y (perfect K y).
Proof.
  intros H. pose proof (wf_nclasses K y P H) as HK. destruct H as [_ [_ [Hy Hne]]].
  unfold f1. cbv zeta. rewrite nclasses_perfect by exact Hne. rewrite map_argmax_perfect by exact Hy. rewrite HK.
  destruct (Nat.eqb K 2); [apply f1_class_le_perfect|]. apply qmean_map_le. intros c _. apply f1_class_le_perfect.
Qed.

(* (no K >= 2 needed) *)
Theorem f1_whole K y P : wf_cls K y P ->
  0 <= f1 y P <= 1 /\ (f1_side K y -> f1 y (perfect K y) == 1).
Proof. intros [_ [_ [Hy Hne]]]. split; [apply f1_range|]. apply f1_perfect; assumption. Qed.

(* ================= 4. whole AUC ================= *)
Lemma column_length c P : length (column c P) = length P.
Proof. apply map_length. Qed.

Lemma select_nonempty keep : forall (y : list nat) (s : list Q), length y = length s ->
  (exists c, In c y /\ keep c = true) -> select keep y s <> [].
Proof.
  unfold select. induction y as [|a y IH]; intros [|b s] Hl [c [Hin Hk]]; try discriminate; [destruct Hin|].
  cbn [combine filter fst]. destruct (keep a) eqn:E; [cbn; discriminate|].
  apply IH; [cbn in Hl; lia|]. exists c. split; [|exact Hk]. destruct Hin as [->|Hin]; [congruence|exact Hin].
Qed.

Lemma select_map_in keep (g : nat -> Q) : forall y a, In a (select keep y (map g y)) ->
  exists l, In l y /\ keep l = true /\ a = g l.
Proof.
  unfold select. induction y as [|l0 y IH]; intros a Ha; [destruct Ha|]. cbn [map combine filter fst] in Ha.
  destruct (keep l0) eqn:E.
  - cbn [map snd In] in Ha. destruct Ha as [<-|Ha].
    + exists l0. repeat split; [left; reflexivity|exact E].
    + destruct (IH a Ha) as [l [A [B C]]]. exists l. repeat split; [right; exact A|exact B|exact C].
  - destruct (IH a Ha) as [l [A [B C]]]. exists l. repeat split; [right; exact A|exact B|exact C].
Qed.

Lemma column_perfect K c y : (c < K)%nat -> column c (perfect K y) = map (fun l => if Nat.eqb c l then 1 else 0) y.
Proof. intros Hc. unfold column, perfect. rewrite map_map. apply map_ext. intros l. apply nth_one_hot. exact Hc. Qed.

Lemma has_both_selects c y (s : list Q) : length y = length s -> has_both c y ->
  select (Nat.eqb c) y s <> [] /\ select (fun a => negb (Nat.eqb c a)) y s <> [].
Proof.
  intros Hl [Hin [d [Hd Hne]]]. split; apply select_nonempty; try exact Hl.
  - exists c. split; [exact Hin|apply Nat.eqb_refl].
  - exists d. split; [exact Hd|]. apply negb_true_iff. apply Nat.eqb_neq. congruence.
Qed.

Theorem auc_class_range c y P : length P = length y -> has_both c y -> 0 <= auc_class c y P <= 1.
Proof.
  intros Hl Hb. unfold auc_class. cbv zeta.
  destruct (has_both_selects c y (column c P)) as [A B]; [rewrite column_length; symmetry; exact Hl|exact Hb|].
  apply auc_bin_range; assumption.
Qed.

Theorem auc_class_perfect K c y : (c < K)%nat -> has_both c y -> auc_class c y (perfect K y) == 1.
Proof.
  intros Hc Hb. unfold auc_class. cbv zeta. rewrite (column_perfect K c y Hc).
  destruct (has_both_selects c y (map (fun l => if Nat.eqb c l then 1 else 0) y)) as [A B]; [rewrite map_length; reflexivity|exact Hb|].
  apply auc_bin_perfect; try assumption.
  intros a b Ha Hb'. apply select_map_in in Ha. apply select_map_in in Hb'.
  destruct Ha as [l [_ [Hk ->]]]. destruct Hb' as [l' [_ [Hk' ->]]]. rewrite Hk.
  apply negb_true_iff in Hk'. rewrite Hk'. reflexivity.
Qed.

Theorem auc_range K y P : wf_cls K y P -> auc_side K y -> 0 <= auc y P <= 1.
Proof.
  intros H Hs. pose proof (wf_nclasses K y P H) as HK. destruct H as [Hl _].
  unfold auc. cbv zeta. rewrite HK. unfold auc_side in Hs. destruct (Nat.eqb K 2).
  - apply auc_class_range; assumption.
  - apply qmean_unit. apply Forall_forall. intros x Hx. apply in_map_iff in Hx. destruct Hx as [c [<- Hc]]. apply in_seq in Hc.
    apply auc_class_range; [exact Hl|]. apply Hs. lia.
Qed.

Theorem auc_perfect K y : Forall (fun c => (c < K)%nat) y -> y <> [] -> auc_side K y -> auc y (perfect K y) == 1.
Proof.
  intros Hy Hne Hs. unfold auc. cbv zeta. rewrite nclasses_perfect by exact Hne.
  unfold auc_side in Hs. destruct (Nat.eqb K 2) eqn:E.
  - apply Nat.eqb_eq in E. apply auc_class_perfect; [lia|exact Hs].
  - apply qmean_const.
    + destruct K as [|K]; [|cbn; discriminate]. destruct y as [|c y]; [contradiction|]. inversion Hy; subst. lia.
    + apply Forall_forall. intros x Hx. apply in_map_iff in Hx. destruct Hx as [c [<- Hc]]. apply in_seq in Hc.
      apply auc_class_perfect; [lia|]. apply Hs. lia.
Qed.

Theorem auc_whole K y P : wf_cls K y P -> auc_side K y -> 0 <= auc y P <= 1 /\ auc y (perfect K y) == 1.
Proof.
  intros H Hs. split; [apply (auc_range K); assumption|]. destruct H as [_ [_ [Hy Hne]]]. apply auc_perfect; assumption.
Qed.

(* ================= 6. main theorems ================= *)
(* the value of perfect predictions is the extreme of the range *)
Theorem score_perfect_value m K y P : In m [Accuracy; Brier; F1; Auc] -> wf_cls K y P -> side m K y ->
  score m y (perfect K y) == (if should_maximize m then 1 else 0).
Proof.
  intros Hm [_ [_ [Hy Hne]]] Hs. destruct Hm as [<-|[<-|[<-|[<-|[]]]]]; cbn [score should_maximize].
  - apply accuracy_perfect_whole; assumption.
  - apply brier_perfect.
  - apply f1_perfect; assumption.
  - apply auc_perfect; assumption.
Qed.

(* strongest form: only AUC needs a side condition *)
Theorem direction_truthful_cls_min m K y P : In m [Accuracy; Brier; F1; Auc] -> wf_cls K y P -> side_min m K y ->
  if should_maximize m then score m y P <= score m y (perfect K y) else score m y (perfect K y) <= score m y P.
Proof.
  intros Hm H Hs. destruct Hm as [<-|[<-|[<-|[<-|[]]]]]; cbn [score should_maximize].
  - destruct (accuracy_whole K y P H) as [[_ A] B]. rewrite B. exact A.
  - rewrite brier_perfect. apply brier_nonneg.
  - apply f1_direction. exact H.
  - destruct (auc_whole K y P H Hs) as [[_ A] B]. rewrite B. exact A.
Qed.

Lemma side_side_min m K y : side m K y -> side_min m K y.
Proof. destruct m; cbn; auto. Qed.

Theorem direction_truthful_cls m K y P : In m [Accuracy; Brier; F1; Auc] -> wf_cls K y P -> side m K y ->
  if should_maximize m then score m y P <= score m y (perfect K y) else score m y (perfect K y) <= score m y P.
Proof. intros Hm H Hs. apply direction_truthful_cls_min; [exact Hm|exact H|apply side_side_min; exact Hs]. Qed.

Theorem direction_truthful_reg m t p : In m [Mse; Mae] ->
  should_maximize m = false /\ score_reg m t t == 0 /\ score_reg m t t <= score_reg m t p.
Proof.
  intros [<-|[<-|[]]]; cbn [score_reg should_maximize]; (split; [reflexivity|]).
  - split; [apply mse_perfect|]. rewrite mse_perfect. apply mse_nonneg.
  - split; [apply mae_perfect|]. rewrite mae_perfect. apply mae_nonneg.
Qed.

(* ================= sklearn's macro average (labels = those occurring in y_true or y_pred) ================= *)
Definition occurs (c : nat) (l : list nat) : bool := existsb (Nat.eqb c) l.
Definition labels_union (K : nat) (y yhat : list nat) : list nat :=
  filter (fun c => occurs c y || occurs c yhat) (seq 0 K).
Definition f1_sk (y : list nat) (P : list (list Q)) : Q :=
  let K := nclasses P in
  let yhat := map argmax P in
  if Nat.eqb K 2 then f1_class 1 y yhat else qmean (map (fun c => f1_class c y yhat) (labels_union K y yhat)).

Lemma occurs_In c l : occurs c l = true <-> In c l.
Proof.
  unfold occurs. rewrite existsb_exists. split.
  - intros [x [Hx E]]. apply Nat.eqb_eq in E. subst. exact Hx.
  - intros H. exists c. split; [exact H|apply Nat.eqb_refl].
Qed.

Lemma filter_all {A} (f : A -> bool) l : (forall x, In x l -> f x = true) -> filter f l = l.
Proof.
  induction l as [|x l IH]; intros H; [reflexivity|]. cbn. rewrite (H x (or_introl eq_refl)). f_equal. apply IH. intros z Hz. apply H. right. exact Hz.
Qed.

(* the two averages coincide when every class occurs in y (and always in the binary case) *)
Theorem f1_sk_eq_f1 y P : (forall c, (c < nclasses P)%nat -> In c y) -> f1_sk y P = f1 y P.
Proof.
  intros H. unfold f1_sk, f1. cbv zeta. destruct (Nat.eqb (nclasses P) 2); [reflexivity|]. unfold labels_union.
  rewrite filter_all; [reflexivity|]. intros c Hc. apply in_seq in Hc. apply orb_true_iff. left. apply occurs_In. apply H. lia.
Qed.

Theorem f1_sk_range y P : 0 <= f1_sk y P <= 1.
Proof.
  unfold f1_sk. cbv zeta. destruct (Nat.eqb (nclasses P) 2); [apply f1_class_range|].
  apply qmean_unit. apply Forall_forall. intros x Hx. apply in_map_iff in Hx. destruct Hx as [c [<- _]]. apply f1_class_range.
Qed.

(* sklearn's macro average of perfect predictions is 1 with NO hypothesis on the classes present (K <> 2) *)
Theorem f1_sk_perfect_macro K y : Forall (fun c => (c < K)%nat) y -> y <> [] -> K <> 2%nat -> f1_sk y (perfect K y) == 1.
Proof.
  intros Hy Hne HK. unfold f1_sk. cbv zeta. rewrite nclasses_perfect by exact Hne. rewrite map_argmax_perfect by exact Hy.
  apply Nat.eqb_neq in HK. rewrite HK. apply qmean_const.
  - destruct y as [|c y]; [contradiction|]. inversion Hy; subst.
    assert (Hin : In c (labels_union K (c :: y) (c :: y))).
    { unfold labels_union. apply filter_In. split; [apply in_seq; lia|]. apply orb_true_iff. left. apply occurs_In. left. reflexivity. }
    intros E. apply (in_map (fun c0 => f1_class c0 (c :: y) (c :: y))) in Hin. rewrite E in Hin. destruct Hin.
  - apply Forall_forall. intros x Hx. apply in_map_iff in Hx. destruct Hx as [c [<- Hc]]. unfold labels_union in Hc.
    apply filter_In in Hc. destruct Hc as [_ Hc]. apply orb_true_iff in Hc. apply f1_class_perfect.
    destruct Hc as [Hc|Hc]; apply occurs_In in Hc; exact Hc.
Qed.

Theorem f1_sk_direction K y P : wf_cls K y P -> f1_sk y P <= f1_sk y (perfect K y).
Proof.
  intros H. pose proof (wf_nclasses K y P H) as HK. destruct H as [_ [_ [Hy Hne]]].
  destruct (Nat.eq_dec K 2) as [E|E].
  - unfold f1_sk. cbv zeta. rewrite nclasses_perfect by exact Hne. rewrite map_argmax_perfect by exact Hy. rewrite HK.
    rewrite E. cbn [Nat.eqb]. apply f1_class_le_perfect.
  - rewrite (f1_sk_perfect_macro K y Hy Hne E). apply f1_sk_range.
Qed.

(* ================= 7. non-vacuity and counterexamples ================= *)
Definition y3 : list nat := [0; 1; 2; 1; 0]%nat.
Definition P3 : list (list Q) :=
  [[6#10; 3#10; 1#10]; [2#10; 5#10; 3#10]; [5#10; 3#10; 2#10]; [1#10; 7#10; 2#10]; [3#10; 4#10; 3#10]].

Example wf_y3 : wf_cls 3 y3 P3.
Proof. unfold wf_cls, y3, P3. repeat split; try discriminate; repeat constructor. Qed.
Example f1_side_y3 : f1_side 3 y3.
Proof. cbn. intros c Hc. assert (c = 0 \/ c = 1 \/ c = 2)%nat as [ -> | [ -> | -> ] ] by lia; cbn; auto. Qed.
Example auc_side_y3 : auc_side 3 y3.
Proof.
  cbn. intros c Hc. assert (c = 0 \/ c = 1 \/ c = 2)%nat as [ -> | [ -> | -> ] ] by lia; (split; [cbn; auto|]).
  - exists 1%nat. cbn. split; [auto|lia].
  - exists 0%nat. cbn. split; [auto|lia].
  - exists 0%nat. cbn. split; [auto|lia].
Qed.

(* values on the instance (they equal sklearn's / torch's floats 0.6, 0.1666.., 0.4333.., 0.73611.. on the same input) *)
Example scores_y3 :
  accuracy y3 P3 == 3 # 5 /\ brier y3 P3 == 1 # 6 /\ f1 y3 P3 == 13 # 30 /\ auc y3 P3 == 53 # 72.
Proof. vm_compute. repeat split; reflexivity. Qed.
Example scores_perfect_y3 :
  accuracy y3 (perfect 3 y3) == 1 /\ brier y3 (perfect 3 y3) == 0 /\ f1 y3 (perfect 3 y3) == 1 /\ auc y3 (perfect 3 y3) == 1.
Proof. vm_compute. repeat split; reflexivity. Qed.
(* the main theorem instantiated: hypotheses are satisfiable and the conclusion is the strict inequality seen above *)
Example direction_y3 :
  score Accuracy y3 P3 <= score Accuracy y3 (perfect 3 y3) /\ score Brier y3 (perfect 3 y3) <= score Brier y3 P3 /\
  score F1 y3 P3 <= score F1 y3 (perfect 3 y3) /\ score Auc y3 P3 <= score Auc y3 (perfect 3 y3).
Proof.
  repeat split.
  - apply (direction_truthful_cls Accuracy 3 y3 P3); [cbn; auto|exact wf_y3|exact I].
  - apply (direction_truthful_cls Brier 3 y3 P3); [cbn; auto|exact wf_y3|exact I].
  - apply (direction_truthful_cls F1 3 y3 P3); [cbn; auto 6|exact wf_y3|exact f1_side_y3].
  - apply (direction_truthful_cls Auc 3 y3 P3); [cbn; auto 6|exact wf_y3|exact auc_side_y3].
Qed.
Example direction_y3_strict :
  score Accuracy y3 P3 < score Accuracy y3 (perfect 3 y3) /\ score Brier y3 (perfect 3 y3) < score Brier y3 P3 /\
  score F1 y3 P3 < score F1 y3 (perfect 3 y3) /\ score Auc y3 P3 < score Auc y3 (perfect 3 y3).
Proof. vm_compute. repeat split; reflexivity. Qed.
Example direction_reg_ex :
  score_reg Mse [[1; 2]; [3; 4]] [[1; 2]; [3; 4]] <= score_reg Mse [[1; 2]; [3; 4]] [[1; 1]; [5; 4]] /\
  score_reg Mse [[1; 2]; [3; 4]] [[1; 1]; [5; 4]] == 5 # 4 /\ score_reg Mae [[1; 2]; [3; 4]] [[1; 1]; [5; 4]] == 3 # 4.
Proof. split; [apply (direction_truthful_reg Mse); cbn; auto|]. vm_compute. split; reflexivity. Qed.

(* ---- the "every class occurs" hypothesis of f1_perfect is needed ---- *)
(* K = 3, class 2 absent from y: well-formed input, perfect predictions, model macro-F1 = 2/3 < 1.
   (sklearn, averaging over the labels that occur, returns 1.0 on this input: f1_sk below.) *)
Example f1_perfect_needs_all_classes :
  wf_cls 3 [0; 1]%nat (perfect 3 [0; 1]%nat) /\ ~ f1_side 3 [0; 1]%nat /\
  f1 [0; 1]%nat (perfect 3 [0; 1]%nat) == 2 # 3 /\ f1_sk [0; 1]%nat (perfect 3 [0; 1]%nat) == 1.
Proof.
  split; [apply perfect_wf; [repeat constructor|discriminate]|]. split.
  - cbn. intros H. specialize (H 2%nat ltac:(lia)). cbn in H. destruct H as [H|[H|[]]]; discriminate.
  - vm_compute. split; reflexivity.
Qed.
(* the absent class predicted once: model and sklearn agree (5/9 = 0.5555..., the float sklearn returns) *)
Example f1_absent_class_predicted :
  f1 [0; 1; 0]%nat [[1; 0; 0]; [0; 1; 0]; [0; 0; 1]] == 5 # 9 /\ f1_sk [0; 1; 0]%nat [[1; 0; 0]; [0; 1; 0]; [0; 0; 1]] == 5 # 9.
Proof. vm_compute. split; reflexivity. Qed.
(* binary: class 1 absent -> F1 = 0 even for perfect predictions (sklearn: 0.0 with an UndefinedMetricWarning) *)
Example f1_perfect_needs_class1_binary :
  wf_cls 2 [0; 0]%nat (perfect 2 [0; 0]%nat) /\ ~ f1_side 2 [0; 0]%nat /\ f1 [0; 0]%nat (perfect 2 [0; 0]%nat) == 0.
Proof.
  split; [apply perfect_wf; [repeat constructor|discriminate]|]. split.
  - cbn. intros [H|[H|[]]]; discriminate.
  - vm_compute. reflexivity.
Qed.
(* AUC: without both kinds of samples for every class the model's value of perfect predictions is not 1
   (0/0 = 0 for class 2; sklearn raises ValueError on this input) *)
Example auc_perfect_needs_both :
  wf_cls 3 [0; 1]%nat (perfect 3 [0; 1]%nat) /\ ~ auc_side 3 [0; 1]%nat /\ auc [0; 1]%nat (perfect 3 [0; 1]%nat) == 2 # 3.
Proof.
  split; [apply perfect_wf; [repeat constructor|discriminate]|]. split.
  - cbn. intros H. destruct (H 2%nat ltac:(lia)) as [Hin _]. cbn in Hin. destruct Hin as [E|[E|[]]]; discriminate.
  - vm_compute. reflexivity.
Qed.
(* accuracy: y <> [] is needed (0/0 = 0) *)
Example accuracy_perfect_needs_nonempty : accuracy [] (perfect 3 []) == 0.
Proof. vm_compute. reflexivity. Qed.
(* argmax = first maximum on a one-hot row and on a tie *)
Example argmax_ex : argmax (one_hot 3 2) = 2%nat /\ argmax [1 # 2; 1 # 2] = 0%nat.
Proof. split; vm_compute; reflexivity. Qed.

Print Assumptions brier_perfect.
Print Assumptions f1_range.
Print Assumptions f1_perfect.
Print Assumptions f1_direction.
Print Assumptions auc_whole.
Print Assumptions accuracy_perfect_whole.
Print Assumptions score_perfect_value.
Print Assumptions direction_truthful_cls_min.
Print Assumptions f1_sk_direction.
Print Assumptions direction_truthful_cls.
Print Assumptions direction_truthful_reg.
