(* Proofs about Model/Agop.v *)
From Coq Require Import QArith List Bool Arith Lia Lqa.
Require Import XV.Model.Tree XV.Model.Soft XV.Model.Agop XV.Proofs.TreeProofs XV.Proofs.SoftProofs XV.Proofs.LabelsProofs.
Import ListNotations.
Local Open Scope Q_scope.

(* the documented entry: sum over all gradient rows of g_i * g_j *)
Definition entry (G : list vec) (i j : nat) : Q := qsum (map (fun g => nth i g 0 * nth j g 0) G).
Definition ment (M : mat) (i j : nat) : Q := nth j (nth i M []) 0.

Definition shape (n d : nat) (M : mat) : Prop := length M = n /\ Forall (fun r => length r = d) M.
Definition wfv (d : nat) (G : list vec) : Prop := Forall (fun g => length g = d) G.

Lemma nth_vsum : forall a b j, length a = length b -> nth j (vsum a b) 0 == nth j a 0 + nth j b 0.
Proof.
  induction a as [|x a IH]; intros [|y b] j H; try discriminate; [destruct j; cbn; lra|].
  cbn in H. injection H as H. destruct j as [|j]; cbn; [lra|apply IH; exact H].
Qed.
Lemma vsum_len : forall a b, length a = length b -> length (vsum a b) = length a.
Proof. induction a as [|x a IH]; intros [|y b] H; try discriminate; cbn; [reflexivity|]. cbn in H. injection H as H. rewrite IH by exact H. reflexivity. Qed.

Lemma madd_shape d : forall A B n, shape n d A -> shape n d B -> shape n d (madd A B).
Proof.
  induction A as [|r A IH]; intros [|s B] n [LA FA] [LB FB]; cbn in *; try (subst; discriminate); [split; [exact LA|constructor]|].
  pose proof (Forall_inv FA) as Hr; pose proof (Forall_inv_tail FA) as FA'; pose proof (Forall_inv FB) as Hs; pose proof (Forall_inv_tail FB) as FB'. cbn in Hr, Hs.
  destruct (IH B (length A)) as [L1 F1]; [split; [reflexivity|exact FA']|split; [lia|exact FB']|].
  split; [cbn; rewrite L1; exact LA|]. constructor; [rewrite vsum_len; [exact Hr|rewrite Hr, Hs; reflexivity]|exact F1].
Qed.

Lemma ment_madd d : forall A B n i j, shape n d A -> shape n d B -> ment (madd A B) i j == ment A i j + ment B i j.
Proof.
  unfold ment. induction A as [|r A IH]; intros [|s B] n i j [LA FA] [LB FB]; cbn in *; try (subst; discriminate).
  - destruct i; destruct j; cbn; lra.
  - pose proof (Forall_inv FA) as Hr; pose proof (Forall_inv_tail FA) as FA'; pose proof (Forall_inv FB) as Hs; pose proof (Forall_inv_tail FB) as FB'. cbn in Hr, Hs. destruct i as [|i]; cbn.
    + apply nth_vsum. rewrite Hr, Hs. reflexivity.
    + apply (IH B (length A)); [split; [reflexivity|exact FA']|split; [lia|exact FB']].
Qed.

Lemma ment_outer g h i j : ment (outer g h) i j == nth i g 0 * nth j h 0.
Proof.
  unfold ment, outer. destruct (Nat.lt_ge_cases i (length g)) as [Hi|Hi].
  - rewrite (nth_indep _ [] (map (fun b => 0 * b) h)) by (rewrite map_length; exact Hi).
    rewrite (map_nth (fun a => map (fun b => a * b) h) g 0 i).
    destruct (Nat.lt_ge_cases j (length h)) as [Hj|Hj].
    + rewrite (nth_indep _ 0 (nth i g 0 * 0)) by (rewrite map_length; exact Hj).
      rewrite (map_nth (fun b => nth i g 0 * b) h 0 j). reflexivity.
    + rewrite (nth_overflow (map _ h)) by (rewrite map_length; exact Hj). rewrite (nth_overflow h) by exact Hj. ring.
  - rewrite (nth_overflow (map _ g)) by (rewrite map_length; exact Hi). rewrite (nth_overflow g) by exact Hi. destruct j; cbn; ring.
Qed.

Lemma outer_shape g : shape (length g) (length g) (outer g g).
Proof. unfold shape, outer. rewrite map_length. split; [reflexivity|]. apply Forall_forall. intros r Hr. apply in_map_iff in Hr. destruct Hr as [a [<- _]]. apply map_length. Qed.

Lemma mzero_shape d : shape d d (mzero d).
Proof. unfold shape, mzero. rewrite repeat_length. split; [reflexivity|]. apply Forall_forall. intros r Hr. apply repeat_spec in Hr. subst. apply repeat_length. Qed.

Lemma ment_mzero d i j : ment (mzero d) i j == 0.
Proof.
  unfold ment, mzero. destruct (Nat.lt_ge_cases i d) as [Hi|Hi].
  - rewrite (nth_indep _ [] (repeat 0 d)) by (rewrite repeat_length; exact Hi). rewrite nth_repeat.
    destruct (Nat.lt_ge_cases j d) as [Hj|Hj]; [rewrite nth_repeat; reflexivity|rewrite nth_overflow by (rewrite repeat_length; exact Hj); reflexivity].
  - rewrite (nth_overflow (repeat _ _)) by (rewrite repeat_length; exact Hi). destruct j; reflexivity.
Qed.

Lemma gram_shape d : forall G, wfv d G -> shape d d (gram d G).
Proof.
  induction 1 as [|g G Hg HG IH]; cbn; [apply mzero_shape|]. apply madd_shape; [rewrite <- Hg; apply outer_shape|exact IH].
Qed.

(* the accumulated matrix IS the sum over points and outputs of the gradient outer products *)
Theorem gram_entry d : forall G i j, wfv d G -> ment (gram d G) i j == entry G i j.
Proof.
  unfold entry. induction 1 as [|g G Hg HG IH]; cbn [gram fold_right map qsum]; [apply ment_mzero|].
  rewrite (ment_madd d _ _ d); [|rewrite <- Hg; apply outer_shape|apply gram_shape; exact HG]. rewrite ment_outer, IH. reflexivity.
Qed.

Lemma entry_app A B i j : entry (A ++ B) i j == entry A i j + entry B i j.
Proof. unfold entry. rewrite map_app, qsum_app. reflexivity. Qed.

Lemma wfv_concat d (Gp : list (list vec)) : Forall (wfv d) Gp -> wfv d (concat Gp).
Proof. induction 1 as [|B Gp HB HG IH]; cbn; [constructor|]. apply Forall_app. split; assumption. Qed.

Lemma Forall_chunks {A} (P : A -> Prop) : forall fuel b (l : list A), Forall P l -> Forall (Forall P) (chunks_aux fuel b l).
Proof.
  induction fuel as [|f IH]; intros b l H; cbn; [constructor|]. destruct l as [|a l]; [constructor|].
  constructor; [|apply IH].
  - apply Forall_forall. intros x Hx. rewrite Forall_forall in H. apply H. eapply in_firstn; exact Hx.
  - apply Forall_forall. intros x Hx. rewrite Forall_forall in H. apply H. eapply in_skipn; exact Hx.
Qed.

(* without centring the result does not depend on the accumulation batch size *)
Theorem agop_batch_independent d b (Gp : list (list vec)) i j : (0 < b)%nat -> Forall (wfv d) Gp ->
  ment (agop d false b Gp) i j == entry (concat Gp) i j.
Proof.
  intros Hb Hw. unfold agop, batches.
  assert (Hc : Forall (Forall (wfv d)) (chunks b Gp)) by (apply Forall_chunks; exact Hw).
  rewrite <- (concat_chunks b Gp Hb) at 2. revert Hc. generalize (chunks b Gp). intros cs Hc.
  induction Hc as [|B cs HB Hcs IH]; cbn [map fold_right concat]; [unfold entry; cbn; apply ment_mzero|].
  assert (SG : forall cs', Forall (Forall (wfv d)) cs' ->
               shape d d (fold_right (fun B0 acc => madd (gram d B0) acc) (mzero d) (map (@concat vec) cs'))).
  { induction 1 as [|B' cs' HB' _ IH']; cbn; [apply mzero_shape|]. apply madd_shape; [apply gram_shape, wfv_concat; exact HB'|exact IH']. }
  rewrite (ment_madd d _ _ d); [|apply gram_shape, wfv_concat; exact HB|apply SG; exact Hcs].
  rewrite gram_entry by (apply wfv_concat; exact HB). rewrite IH, concat_app, entry_app. reflexivity.
Qed.

(* symmetric *)
Theorem entry_symmetric G i j : entry G i j == entry G j i.
Proof. unfold entry. induction G as [|g G IH]; cbn; [reflexivity|]. rewrite IH. lra. Qed.

Lemma qsum_map_zero {A} (f : A -> Q) l : (forall a, f a == 0) -> qsum (map f l) == 0.
Proof. intros H. induction l as [|a l IH]; cbn; [reflexivity|]. rewrite (H a), IH. lra. Qed.

(* positive semi-definite: x^T M x = sum_g (g . x)^2 >= 0, written on the documented entries *)
Lemma double_sum_split (x u : nat -> Q) (e : nat -> nat -> Q) : forall l1 l2,
  qsum (map (fun i => qsum (map (fun j => x i * x j * (u i * u j + e i j)) l2)) l1)
  == qsum (map (fun i => x i * u i) l1) * qsum (map (fun j => x j * u j) l2) + qsum (map (fun i => qsum (map (fun j => x i * x j * e i j) l2)) l1).
Proof.
  induction l1 as [|i l1 IH1]; intros l2; cbn [map qsum]; [lra|]. rewrite IH1.
  assert (B : qsum (map (fun j => x i * x j * (u i * u j + e i j)) l2) == x i * u i * qsum (map (fun j => x j * u j) l2) + qsum (map (fun j => x i * x j * e i j) l2)).
  { induction l2 as [|j l2 IH2]; cbn [map qsum]; [lra|]. rewrite IH2. lra. }
  rewrite B. lra.
Qed.

Lemma entry_quadratic_form G : forall (x : nat -> Q) (idx : list nat),
  qsum (map (fun i => qsum (map (fun j => x i * x j * entry G i j) idx)) idx)
  == qsum (map (fun g => let s := qsum (map (fun i => x i * nth i g 0) idx) in s * s) G).
Proof.
  intros x idx. induction G as [|g G IH].
  - cbn [map qsum]. apply qsum_map_zero. intros i. apply qsum_map_zero. intros j. unfold entry. cbn. ring.
  - cbn [map qsum]. rewrite <- IH.
    change (qsum (map (fun i => qsum (map (fun j => x i * x j * entry (g :: G) i j) idx)) idx))
      with (qsum (map (fun i => qsum (map (fun j => x i * x j * ((fun k => nth k g 0) i * (fun k => nth k g 0) j + (fun a b => entry G a b) i j)) idx)) idx)).
    rewrite (double_sum_split x (fun k => nth k g 0) (fun a b => entry G a b) idx idx). cbn beta. lra.
Qed.

Theorem entry_psd G (x : nat -> Q) (idx : list nat) :
  0 <= qsum (map (fun i => qsum (map (fun j => x i * x j * entry G i j) idx)) idx).
Proof.
  rewrite entry_quadratic_form. apply qsum_nonneg. apply Forall_forall. intros y Hy. apply in_map_iff in Hy. destruct Hy as [g [<- _]].
  cbn zeta. generalize (qsum (map (fun i => x i * nth i g 0) idx)). intros s. nra.
Qed.

(* diagonal mode = diagonal of the full matrix *)
Theorem gram_diag_entry d : forall G i, wfv d G -> nth i (gram_diag d G) 0 == entry G i i.
Proof.
  unfold entry. induction 1 as [|g G Hg HG IH]; cbn [gram_diag fold_right map qsum].
  - destruct (Nat.lt_ge_cases i d) as [Hi|Hi]; [rewrite nth_repeat; reflexivity|rewrite nth_overflow by (rewrite repeat_length; exact Hi); reflexivity].
  - assert (Hl : length (gram_diag d G) = d).
    { clear -HG. induction HG as [|g' G' Hg' _ IH']; cbn [gram_diag fold_right]; [apply repeat_length|]. fold (gram_diag d G'). rewrite vsum_len; [rewrite map_length; exact Hg'|rewrite map_length, IH'; exact Hg']. }
    fold (gram_diag d G). rewrite nth_vsum by (rewrite map_length, Hl; exact Hg). rewrite IH.
    destruct (Nat.lt_ge_cases i (length g)) as [Hi|Hi].
    + rewrite (nth_indep _ 0 (0 * 0)) by (rewrite map_length; exact Hi). rewrite (map_nth (fun a => a * a) g 0 i). reflexivity.
    + rewrite (nth_overflow (map _ g)) by (rewrite map_length; exact Hi). rewrite (nth_overflow g) by exact Hi. lra.
Qed.

(* normalisation: no entry exceeds the largest one *)
Lemma qmaxl_ge : forall l x, In x l -> x <= qmaxl l.
Proof.
  intros l. unfold qmaxl. generalize (hd 0 l). induction l as [|y l IH]; intros h x Hx; [destruct Hx|]. cbn [fold_right].
  destruct (Qle_bool (fold_right (fun x0 m => if Qle_bool m x0 then x0 else m) h l) y) eqn:E.
  - apply Qle_bool_iff in E. destruct Hx as [->|Hx]; [lra|]. specialize (IH h x Hx). lra.
  - assert (y < fold_right (fun x0 m => if Qle_bool m x0 then x0 else m) h l).
    { apply Qnot_le_lt. intros Hc. apply Qle_bool_iff in Hc. congruence. }
    destruct Hx as [->|Hx]; [lra|apply IH; exact Hx].
Qed.

Theorem normalised_entries_at_most_one (M : mat) r x : 0 < mat_max M -> In r M -> In x r -> x / (mat_max M + tiny) <= 1.
Proof.
  intros Hp Hr Hx. assert (Hle : x <= mat_max M).
  { unfold mat_max. apply qmaxl_ge. apply in_concat. exists r. split; assumption. }
  assert (Ht : 0 < tiny) by reflexivity.
  apply Qle_shift_div_r; lra.
Qed.

(* block restriction: the AGOP of the gradients restricted to a block's columns is the dense AGOP at those columns *)
Definition select_cols (idx : list nat) (g : vec) : vec := map (fun k => nth k g 0) idx.

Theorem block_entry (G : list vec) (idx : list nat) (a b : nat) : (a < length idx)%nat -> (b < length idx)%nat ->
  entry (map (select_cols idx) G) a b == entry G (nth a idx O) (nth b idx O).
Proof.
  intros Ha Hb. unfold entry. rewrite map_map. induction G as [|g G IH]; cbn [map qsum]; [reflexivity|]. rewrite IH.
  unfold select_cols.
  rewrite (nth_indep _ 0 ((fun k => nth k g 0) O)) by (rewrite map_length; exact Ha).
  rewrite (nth_indep (map _ idx) 0 ((fun k => nth k g 0) O)) by (rewrite map_length; exact Hb).
  rewrite !(map_nth (fun k => nth k g 0)). reflexivity.
Qed.
