(* Soundness of the attribute-flow analysis (pattern D). *)
From Coq Require Import List Bool Arith Lia.
Require Import XV.Model.AttrFlow.
Import ListNotations.

Lemma mem_In a l : mem a l = true <-> In a l.
Proof.
  unfold mem. rewrite existsb_exists. split.
  - intros [x [Hx E]]. apply Nat.eqb_eq in E. subst. exact Hx.
  - intros H. exists a. split; [exact H|apply Nat.eqb_refl].
Qed.

Lemma inter_In a x y : In a (inter x y) <-> In a x /\ In a y.
Proof. unfold inter. rewrite filter_In, mem_In. tauto. Qed.

Section Sound.
  Variable V : Type.
  Variable oracle : nat -> list V -> V * bool * nat.
  Variable mutable : nat -> bool.

  Notation exec := (exec V oracle).

  (* two object states agree on everything that is either never written after construction or certainly rewritten so far *)
  Definition agree (c : list nat) (s1 s2 : store V) : Prop :=
    forall a, mutable a = false \/ In a c -> s1 a = s2 a.

  Lemma agree_weaken c c' s1 s2 : incl c c' -> agree c' s1 s2 -> agree c s1 s2.
  Proof. intros Hi H a [Ha|Ha]; apply H; [left; exact Ha|right; apply Hi; exact Ha]. Qed.

  Lemma ana_mono : forall p c c', ana mutable p c = Some c' -> incl c c'.
  Proof.
    induction p as [|p IHp q IHq|a|a|l IHl r IHr|b IHb]; intros c c' H; cbn in H.
    - inversion H; subst. apply incl_refl.
    - destruct (ana mutable p c) as [c1|] eqn:E; [|discriminate].
      eapply incl_tran; [eapply IHp; exact E|eapply IHq; exact H].
    - destruct (mutable a && negb (mem a c)); [discriminate|]. inversion H; subst. apply incl_refl.
    - inversion H; subst. apply incl_tl, incl_refl.
    - destruct (ana mutable l c) as [c1|] eqn:E1; [|discriminate]. destruct (ana mutable r c) as [c2|] eqn:E2; [|discriminate].
      inversion H; subst. intros a Ha. apply inter_In. split; [eapply IHl; eassumption|eapply IHr; eassumption].
    - destruct (ana mutable b c); [|discriminate]. inversion H; subst. apply incl_refl.
  Qed.

  Definition sim (c : list nat) (s1 s2 : st V) : Prop :=
    agree c (s_store V s1) (s_store V s2) /\ s_log V s1 = s_log V s2 /\ s_k V s1 = s_k V s2.

  Theorem ana_sound : forall p c c', ana mutable p c = Some c' ->
    forall s1 s2, sim c s1 s2 -> sim c' (exec p s1) (exec p s2).
  Proof.
    induction p as [|p IHp q IHq|a|a|l IHl r IHr|b IHb]; intros c c' H s1 s2 (Ha & Hl & Hk); cbn [ana] in H.
    - inversion H; subst. cbn. split; [exact Ha|split; assumption].
    - destruct (ana mutable p c) as [c1|] eqn:E; [|discriminate]. cbn [AttrFlow.exec].
      eapply IHq; [exact H|]. eapply IHp; [exact E|]. split; [exact Ha|split; assumption].
    - destruct (mutable a && negb (mem a c)) eqn:E; [discriminate|]. inversion H; subst. cbn.
      split; [exact Ha|]. split; [|exact Hk].
      assert (Ea : s_store V s1 a = s_store V s2 a).
      { apply Ha. apply andb_false_iff in E. destruct E as [E|E]; [left; exact E|right; apply negb_false_iff in E; apply mem_In; exact E]. }
      rewrite Hl, Ea. reflexivity.
    - inversion H; subst. cbn [AttrFlow.exec]. rewrite Hl, Hk. destruct (oracle (s_k V s2) (s_log V s2)) as [[v b] n]. cbn.
      split; [|split; reflexivity].
      intros x Hx. cbn. unfold upd. destruct (Nat.eqb x a) eqn:Ex; [reflexivity|].
      apply Ha. destruct Hx as [Hx|Hx]; [left; exact Hx|right].
      destruct Hx as [Hx|Hx]; [subst; rewrite Nat.eqb_refl in Ex; discriminate|exact Hx].
    - destruct (ana mutable l c) as [c1|] eqn:E1; [|discriminate]. destruct (ana mutable r c) as [c2|] eqn:E2; [|discriminate].
      inversion H; subst. cbn [AttrFlow.exec]. rewrite Hl, Hk. destruct (oracle (s_k V s2) (s_log V s2)) as [[v b] n].
      set (t1 := {| s_store := s_store V s1; s_log := s_log V s2; s_k := S (s_k V s2) |}).
      set (t2 := {| s_store := s_store V s2; s_log := s_log V s2; s_k := S (s_k V s2) |}).
      assert (Hs : sim c t1 t2) by (split; [exact Ha|split; reflexivity]).
      destruct b.
      + destruct (IHl c c1 E1 t1 t2 Hs) as (A & B & C). split; [|split; assumption].
        eapply agree_weaken; [|exact A]. intros a Hin. apply inter_In in Hin. tauto.
      + destruct (IHr c c2 E2 t1 t2 Hs) as (A & B & C). split; [|split; assumption].
        eapply agree_weaken; [|exact A]. intros a Hin. apply inter_In in Hin. tauto.
    - destruct (ana mutable b c) as [cb|] eqn:E; [|discriminate]. inversion H; subst. cbn [AttrFlow.exec].
      rewrite Hl, Hk. destruct (oracle (s_k V s2) (s_log V s2)) as [[v bb] n].
      set (t1 := {| s_store := s_store V s1; s_log := s_log V s2; s_k := S (s_k V s2) |}).
      set (t2 := {| s_store := s_store V s2; s_log := s_log V s2; s_k := S (s_k V s2) |}).
      assert (Hs : sim c' t1 t2) by (split; [exact Ha|split; reflexivity]).
      clearbody t1 t2. induction n as [|n IHn]; [exact Hs|]. cbn [Nat.iter].
      destruct (IHb c' cb E _ _ IHn) as (A & B & C). split; [|split; assumption].
      eapply agree_weaken; [eapply ana_mono; exact E|exact A].
  Qed.

  (* what the checks use: starting from NO assumption about the mutable attributes (clean = []), an accepted program computes the
     same read log and leaves the same certainly-written attributes, whatever the two objects' histories were *)
  Corollary history_independent p c' :
    ana mutable p [] = Some c' ->
    forall (st1 st2 : store V) log k, (forall a, mutable a = false -> st1 a = st2 a) ->
    let t1 := exec p {| s_store := st1; s_log := log; s_k := k |} in
    let t2 := exec p {| s_store := st2; s_log := log; s_k := k |} in
    s_log V t1 = s_log V t2 /\ (forall a, mutable a = false \/ In a c' -> s_store V t1 a = s_store V t2 a).
  Proof.
    intros H st1 st2 log k Hc. cbn zeta.
    destruct (ana_sound p [] c' H {| s_store := st1; s_log := log; s_k := k |} {| s_store := st2; s_log := log; s_k := k |}) as (A & B & _).
    - split; [|split; reflexivity]. intros a [Ha|[]]. apply Hc. exact Ha.
    - split; [exact B|exact A].
  Qed.

  (* the diagnostic variant agrees with the analysis *)
  Lemma offenders_ana : forall p c, fst (offenders mutable p c) = [] -> ana mutable p c = Some (snd (offenders mutable p c)).
  Proof.
    induction p as [|p IHp q IHq|a|a|l IHl r IHr|b IHb]; intros c H; cbn in *.
    - reflexivity.
    - destruct (offenders mutable p c) as [o1 c1] eqn:E1. destruct (offenders mutable q c1) as [o2 c2] eqn:E2. cbn in *.
      apply app_eq_nil in H as [H1 H2]. specialize (IHp c). rewrite E1 in IHp. rewrite (IHp H1). cbn.
      specialize (IHq c1). rewrite E2 in IHq. apply IHq. exact H2.
    - destruct (mutable a && negb (mem a c)); [discriminate|reflexivity].
    - reflexivity.
    - destruct (offenders mutable l c) as [o1 c1] eqn:E1. destruct (offenders mutable r c) as [o2 c2] eqn:E2. cbn in *.
      apply app_eq_nil in H as [H1 H2]. specialize (IHl c). rewrite E1 in IHl. rewrite (IHl H1).
      specialize (IHr c). rewrite E2 in IHr. rewrite (IHr H2). reflexivity.
    - destruct (offenders mutable b c) as [o cb] eqn:E. cbn in *. specialize (IHb c). rewrite E in IHb. rewrite (IHb H). reflexivity.
  Qed.
End Sound.
