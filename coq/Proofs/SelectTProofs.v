(* Proofs about Model/SelectT.v: a fit with a time limit is a fit with the iteration budget cut at the round where the clock ran out;
   hence every theorem about Select.run (C02 coherence, C03 first-best / early stopping / no crash) holds for timed-out fits. *)
From Coq Require Import List Bool Arith Lia.
Require Import XV.Model.Select XV.Model.SelectT XV.Proofs.SelectProofs.
Import ListNotations.

Section FitTProofs.
  Variable S : Type.
  Variable init : S.
  Variable better stop : S -> S -> bool.
  Variable tl : nat -> bool.

  Lemma loop_t_is_loop rb es : forall k i scores a,
    loop_t S better stop tl rb es k i scores a = loop S better stop rb es (cut_from tl k i) i scores a.
  Proof.
    induction k as [|k IH]; intros i scores a; [reflexivity|].
    cbn [loop_t cut_from]. destruct (Nat.ltb 0 i && tl i); [reflexivity|].
    cbn [loop]. destruct scores as [|s rest]; [reflexivity|].
    destruct (es && stop s _); [reflexivity|]. apply IH.
  Qed.

  Theorem run_t_is_run_at_the_cut iters lbl rb es scores :
    run_t S init better stop tl iters lbl rb es scores = run S init better stop (cut tl iters) lbl rb es scores.
  Proof. unfold run_t, run, cut. rewrite loop_t_is_loop. reflexivity. Qed.

  Lemma cut_from_le : forall k i, cut_from tl k i <= k.
  Proof. induction k as [|k IH]; intros i; cbn [cut_from]; [lia|]. destruct (Nat.ltb 0 i && tl i); [lia|]. specialize (IH (Datatypes.S i)). lia. Qed.

  Lemma cut_le iters : cut tl iters <= iters.
  Proof. apply cut_from_le. Qed.

  (* the first round is never cut (the test needs i > 0) *)
  Lemma cut_pos iters : 0 < iters -> 0 < cut tl iters.
  Proof. destruct iters as [|k]; [lia|]. intros _. unfold cut. cbn [cut_from Nat.ltb Nat.leb andb]. lia. Qed.

  Lemma cut_from_never : (forall i, tl i = false) -> forall k i, cut_from tl k i = k.
  Proof. intros H. induction k as [|k IH]; intros i; cbn [cut_from]; [reflexivity|]. rewrite H, andb_false_r, IH. reflexivity. Qed.

  Theorem run_t_without_timeout iters lbl rb es scores : (forall i, tl i = false) ->
    run_t S init better stop tl iters lbl rb es scores = run S init better stop iters lbl rb es scores.
  Proof. intros H. rewrite run_t_is_run_at_the_cut. unfold cut. rewrite cut_from_never by exact H. reflexivity. Qed.

  (* the clock fires at round r (and not before): exactly r rounds are completed *)
  Lemma cut_from_at : forall k i r, 0 < r -> i <= r -> r < i + k -> tl r = true -> (forall j, i <= j -> j < r -> tl j = false) -> cut_from tl k i = r - i.
  Proof.
    induction k as [|k IH]; intros i r Hr Hi Hk Ht Hn; [lia|]. cbn [cut_from].
    destruct (Nat.eq_dec i r) as [->|Hne].
    - replace (Nat.ltb 0 r) with true by (symmetry; apply Nat.ltb_lt; exact Hr). rewrite Ht. cbn. lia.
    - rewrite (Hn i) by lia. rewrite andb_false_r. rewrite (IH (Datatypes.S i) r) by (try lia; try exact Ht; intros j Hj1 Hj2; apply Hn; lia). lia.
  Qed.

  Theorem cut_at iters r : 0 < r -> r < iters -> tl r = true -> (forall j, j < r -> tl j = false) -> cut tl iters = r.
  Proof. intros Hr Hlt Ht Hn. unfold cut. rewrite (cut_from_at iters 0 r) by (try lia; try exact Ht; intros j _ Hj; apply Hn; exact Hj). lia. Qed.
End FitTProofs.

(* C02 for timed-out fits: whatever the scores, the switches and the clock, the stored coefficients were solved with the stored M and bandwidth *)
Theorem run_t_state_coherent (S : Type) (init : S) (better stop : S -> S -> bool) (tl : nat -> bool) :
  (forall s, stop s init = false) ->
  forall iters lbl rb es scores w m bw bi e st,
  run_t S init better stop tl iters lbl rb es scores = Out w m bw bi e st -> w_m w = m /\ w_bw w = bw.
Proof. intros Hs iters lbl rb es scores w m bw bi e st H. rewrite run_t_is_run_at_the_cut in H. eapply run_state_coherent; [exact Hs|exact H]. Qed.

(* C03 for timed-out fits: the returned iterate is the first best among the evaluated ones, all pieces carry its index, and the number of evaluations is that of
   a fit whose budget is the cut *)
Theorem run_t_returns_first_best (S : Type) (init : S) (better stop : S -> S -> bool) (tl : nat -> bool) :
  (forall a, better a a = false) ->
  (forall a b c, better a b = true -> better b c = true -> better a c = true) ->
  (forall a b c, better a c = true -> better a b = true \/ better b c = true) ->
  forall (fin : S -> Prop), (forall s, fin s -> better s init = true) ->
  forall iters lbl es scores w m bw bi e st, Forall fin scores ->
  run_t S init better stop tl iters lbl true es scores = Out w m bw bi e st ->
  let ev := firstn e scores in
  let j := w_iter w in
  let c := cut tl iters in
  length ev = e /\ j < e /\
  (forall k, k < e -> better (nth k ev init) (nth j ev init) = false) /\
  (forall k, k < j -> better (nth j ev init) (nth k ev init) = true) /\
  w_m w = j /\ w_bw w = j /\ m = j /\ bw = j /\
  (if es then e = match first_stop S init better stop c [] scores with Some n => n | None => Datatypes.S c end
             /\ st = match first_stop S init better stop c [] scores with Some _ => true | None => false end
   else e = Datatypes.S c /\ st = false) /\ c <= iters.
Proof.
  intros H1 H2 H3 fin H4 iters lbl es scores w m bw bi e st Hf H. rewrite run_t_is_run_at_the_cut in H.
  pose proof (run_returns_first_best S init better stop H1 H2 H3 fin H4 (cut tl iters) lbl es scores w m bw bi e st Hf H) as R.
  cbn zeta in *. destruct R as (A & B & C & D & E & F & G & I & J). repeat split; try assumption; try (destruct es; destruct J; assumption). apply cut_le.
Qed.

Theorem run_t_never_crashes (S : Type) (init : S) (better stop : S -> S -> bool) (tl : nat -> bool) :
  (forall a, better a a = false) ->
  (forall a b c, better a b = true -> better b c = true -> better a c = true) ->
  (forall a b c, better a c = true -> better a b = true \/ better b c = true) ->
  forall (fin : S -> Prop), (forall s, fin s -> better s init = true) ->
  forall iters lbl es scores, Forall fin scores -> iters < length scores ->
  run_t S init better stop tl iters lbl true es scores <> Crash.
Proof.
  intros H1 H2 H3 fin H4 iters lbl es scores Hf Hl. rewrite run_t_is_run_at_the_cut.
  apply (run_never_crashes S init better stop H1 H2 H3 fin H4); [exact Hf|]. pose proof (cut_le tl iters). lia.
Qed.
Print Assumptions run_t_returns_first_best.
Print Assumptions run_t_never_crashes.

Example cut_example : cut (fun i => Nat.eqb i 2) 5 = 2 /\ cut (fun _ => false) 5 = 5 /\ cut (fun _ => true) 5 = 1 /\ cut (fun _ => true) 0 = 0.
Proof. vm_compute. repeat split; reflexivity. Qed.
Print Assumptions run_t_is_run_at_the_cut.
Print Assumptions run_t_state_coherent.
