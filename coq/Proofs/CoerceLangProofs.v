(* C20: a checker, evaluated inside Coq, for programs of the embedded coercion language (XV.Model.CoerceLang).
   The harness (harness/coerceops.py) serialises the coercion block of xRFM.fit to a term `gen_prog : list stmt`;
   `prog_okb gen_prog = true` is then established by vm_compute and `prog_ok_sound` turns it into the statement
   that the interpreter, on every representation of the targets, ends with the task type and canonical target
   format of the model Coerce.is_class / Coerce.canon_y.  No trusted Python abstract interpreter is involved. *)
From Coq Require Import List Bool Arith String.
Require Import XV.Model.Coerce XV.Model.CoerceLang XV.Properties.C20.
Import ListNotations.
Open Scope string_scope.

(* ---------- (a) the finite domain ---------- *)
Definition all_metrics : list metric_kind := [NoMetric; RegMetric; ClassMetric].
Definition all_encodings : list encoding := [ZeroOne; Prevalence].
Definition all_K : list nat := [2; 3; 5].
Definition all_containers : list container := [Tensor; Array].
Definition all_dtypes : list dtype := [F32; F64; I8; I16; I32; I64; U8].
Definition all_shapes : list yshape := [Flat; Column; Wide 3].

(* integer label matrices are not a representation of the data sets considered (same exclusion as coerceops.table()) *)
Definition keep (r : rep) : bool :=
  let '(_, _, _, _, d, s) := r in is_float d || negb (yshape_eqb s (Wide 3)).

(* same order as itertools.product in coerceops.table(): the first factor varies slowest *)
Definition all_reps : list rep :=
  filter keep
    (list_prod (list_prod (list_prod (list_prod (list_prod all_metrics all_encodings) all_K) all_containers) all_dtypes) all_shapes).

Lemma all_reps_length : List.length all_reps = 576.
Proof. vm_compute. reflexivity. Qed.

Lemma yshape_eqb_eq : forall a b, yshape_eqb a b = true <-> a = b.
Proof.
  intros a b; split.
  - destruct a, b; cbn; try discriminate; try reflexivity. intro H. apply Nat.eqb_eq in H. now subst.
  - intros ->. destruct b; cbn; try reflexivity. apply Nat.eqb_refl.
Qed.

Lemma dtype_eqb_eq : forall a b, dtype_eqb a b = true <-> a = b.
Proof. intros a b; split; [destruct a, b; cbn; try discriminate; reflexivity | intros ->; destruct b; reflexivity]. Qed.

Lemma all_metrics_full : forall m, In m all_metrics.      Proof. destruct m; cbn; auto. Qed.
Lemma all_encodings_full : forall e, In e all_encodings.  Proof. destruct e; cbn; auto. Qed.
Lemma all_containers_full : forall c, In c all_containers. Proof. destruct c; cbn; auto. Qed.
Lemma all_dtypes_full : forall d, In d all_dtypes.        Proof. destruct d; cbn; auto 10. Qed.

(* membership: every tuple of the finite types with K in [2;3;5], shape in [(n,); (n,1); (n,3)], and not an integer matrix *)
Lemma In_all_reps : forall m e K c d s,
  In (m, e, K, c, d, s) all_reps <->
  In K all_K /\ In s all_shapes /\ (is_float d = true \/ s <> Wide 3).
Proof.
  intros m e K c d s. unfold all_reps. rewrite filter_In. repeat rewrite in_prod_iff.
  unfold keep. rewrite orb_true_iff, negb_true_iff.
  split.
  - intros [[[[[[_ _] HK] _] _] Hs] Hk]. repeat split; auto.
    destruct Hk as [Hk | Hk]; [left; exact Hk | right]. intro E. apply yshape_eqb_eq in E. congruence.
  - intros [HK [Hs Hk]]. split.
    + repeat split; auto using all_metrics_full, all_encodings_full, all_containers_full, all_dtypes_full.
    + destruct Hk as [Hk | Hk]; [left; exact Hk | right].
      destruct (yshape_eqb s (Wide 3)) eqn:E; [apply yshape_eqb_eq in E; contradiction | reflexivity].
Qed.

Corollary all_reps_complete : forall m e K c d s,
  In K [2; 3; 5] -> In s [Flat; Column; Wide 3] -> (is_float d = false -> s <> Wide 3) -> In (m, e, K, c, d, s) all_reps.
Proof.
  intros m e K c d s HK Hs Hx. apply In_all_reps. repeat split; auto.
  destruct (is_float d); [left; reflexivity | right; auto].
Qed.

(* ---------- (b) the checker ---------- *)
Definition outcome_eqb (a b : option (bool * dtype * nat)) : bool :=
  match a, b with
  | Some (c1, d1, n1), Some (c2, d2, n2) => Bool.eqb c1 c2 && dtype_eqb d1 d2 && Nat.eqb n1 n2
  | _, _ => false
  end.

Lemma outcome_eqb_eq : forall a b, outcome_eqb a b = true -> a = b.
Proof.
  intros [[[c1 d1] n1]|] [[[c2 d2] n2]|]; cbn; try discriminate.
  rewrite !andb_true_iff. intros [[H1 H2] H3].
  apply eqb_prop in H1. apply dtype_eqb_eq in H2. apply Nat.eqb_eq in H3. now subst.
Qed.

Definition rep_okb (prog : list stmt) (r : rep) : bool :=
  match run (cfg r) (init r) prog with
  | Some g => outcome_eqb (outcome g) (expected r)
  | None => false
  end.

Definition prog_okb (prog : list stmt) : bool := forallb (rep_okb prog) all_reps.

(* ---------- (c) soundness of the checker ---------- *)
Theorem prog_ok_sound : forall prog, prog_okb prog = true ->
  forall r, In r all_reps -> exists env', run (cfg r) (init r) prog = Some env' /\ outcome env' = expected r.
Proof.
  intros prog H r Hr. unfold prog_okb in H. rewrite forallb_forall in H. specialize (H r Hr).
  unfold rep_okb in H. destruct (run (cfg r) (init r) prog) as [g|]; [|discriminate].
  exists g. split; [reflexivity | apply outcome_eqb_eq; exact H].
Qed.
Print Assumptions prog_ok_sound.

(* what an outcome says: y and y_val end as tensors of one and the same format *)
Lemma outcome_same_format : forall g o, outcome g = Some o ->
  exists d s, lookup "y" (vars g) = Some (ATensor d s) /\ lookup "y_val" (vars g) = Some (ATensor d s).
Proof.
  intros g o. unfold outcome.
  destruct (lookup "y" (vars g)) as [[d s| | | | | | | | | | | |]|]; try discriminate.
  destruct (lookup "y_val" (vars g)) as [[d' s'| | | | | | | | | | | |]|]; try discriminate.
  destruct (dtype_eqb d d' && yshape_eqb s s') eqn:E; [|discriminate].
  apply andb_true_iff in E. destruct E as [E1 E2]. apply dtype_eqb_eq in E1. apply yshape_eqb_eq in E2. subst.
  intros _. exists d', s'. split; reflexivity.
Qed.

Corollary prog_ok_same_format : forall prog, prog_okb prog = true -> forall r, In r all_reps ->
  exists env' d s, run (cfg r) (init r) prog = Some env' /\
                   lookup "y" (vars env') = Some (ATensor d s) /\ lookup "y_val" (vars env') = Some (ATensor d s).
Proof.
  intros prog H r Hr. destruct (prog_ok_sound prog H r Hr) as [g [Hg Ho]].
  assert (exists o, outcome g = Some o) as [o Hoo].
  { rewrite Ho. destruct r as [[[[[m e] K] c] d] s]. cbn. eexists; reflexivity. }
  destruct (outcome_same_format g o Hoo) as [d [s [H1 H2]]]. exists g, d, s. auto.
Qed.

(* ---------- (d) the property: the outcome does not depend on the representation ---------- *)
(* two representations of the same data: same configuration, same float-vs-integer class of dtype, (n,) and (n,1)
   interchangeable (a matrix target only against the same matrix shape); container, float width, integer width arbitrary *)
Definition same_data (r1 r2 : rep) : Prop :=
  let '(m1, e1, K1, _, d1, s1) := r1 in
  let '(m2, e2, K2, _, d2, s2) := r2 in
  m1 = m2 /\ e1 = e2 /\ K1 = K2 /\ is_float d1 = is_float d2 /\
  (s1 = s2 \/ ((s1 = Flat \/ s1 = Column) /\ (s2 = Flat \/ s2 = Column))).

Lemma canon_y_same_shape : forall m e K c1 d1 c2 d2 s,
  is_float d1 = is_float d2 -> canon_y m e K c1 d1 s = canon_y m e K c2 d2 s.
Proof.
  intros m e K c1 d1 c2 d2 s Hf. unfold canon_y.
  rewrite (C20_task_type_representation_independent m d1 d2 Hf), Hf. reflexivity.
Qed.

Lemma expected_same_data : forall r1 r2, same_data r1 r2 -> expected r1 = expected r2.
Proof.
  intros [[[[[m1 e1] K1] c1] d1] s1] [[[[[m2 e2] K2] c2] d2] s2] [-> [-> [-> [Hf Hs]]]]. cbn.
  rewrite (C20_task_type_representation_independent m2 d1 d2 Hf).
  assert (canon_y m2 e2 K2 c1 d1 s1 = canon_y m2 e2 K2 c2 d2 s2) as ->; [|reflexivity].
  destruct Hs as [-> | [H1 H2]].
  - apply canon_y_same_shape; exact Hf.
  - apply C20_targets_canonical; assumption.
Qed.

Theorem prog_ok_representation_independent : forall prog, prog_okb prog = true ->
  forall r1 r2, In r1 all_reps -> In r2 all_reps -> same_data r1 r2 ->
  exists g1 g2 o, run (cfg r1) (init r1) prog = Some g1 /\ run (cfg r2) (init r2) prog = Some g2 /\
                  outcome g1 = Some o /\ outcome g2 = Some o.
Proof.
  intros prog H r1 r2 H1 H2 Hs.
  destruct (prog_ok_sound prog H r1 H1) as [g1 [R1 O1]].
  destruct (prog_ok_sound prog H r2 H2) as [g2 [R2 O2]].
  rewrite (expected_same_data r1 r2 Hs) in O1.
  assert (exists o, expected r2 = Some o) as [o Ho].
  { destruct r2 as [[[[[m e] K] c] d] s]. cbn. eexists; reflexivity. }
  exists g1, g2, o. rewrite O1, O2, Ho. auto.
Qed.
Print Assumptions prog_ok_representation_independent.

(* ---------- (e) examples ---------- *)
(* the coercion block of xRFM.fit as it stands today, written by hand (the harness generates the same term from the source) *)
Definition y := EName "y".
Definition yv := EName "y_val".
Definition ref_prog : list stmt :=
  [ SAssign "y" (ETo (EAsTensor y) (ESelf "device"));
    SAssign "y_val" (ETo (EAsTensor yv) (ESelf "device"));
    SAssign "y_train_and_val" (ECat y yv);
    SIf (ECmp CIsNot (ESelf "tuning_metric") ENone)
      [ SAssign "metric" (EMetricFromName (ESelf "tuning_metric"));
        SAssign "is_class" (ENot (ECmp CIn (EStr "reg") (ETaskTypes (EName "metric"))));
        SIf (EAnd (EName "is_class") (EIsFloat y)) [ SExpr EPrint ] [] ]
      [ SAssign "is_class" (ENot (EIsFloat y));
        SAssignSelf "tuning_metric" (EIfExp (EName "is_class") (EStr "brier") (EStr "mse")) ];
    SIf (EName "is_class")
      [ SIf (EIsFloat y)
          [ SAssign "y" (EFloat y);
            SAssign "y_val" (EFloat yv);
            SIf (ECmp CEq (ELenShape y) (EInt 1)) [ SAssign "y" (EColNone y) ] [];
            SIf (ECmp CEq (ELenShape yv) (EInt 1)) [ SAssign "y_val" (EColNone yv) ] [];
            SAssert (ECmp CEq (ELenShape y) (EInt 2));
            SAssignSelf "n_classes_" (EMax2 (EInt 2) (EShapeAt y 1));
            SAssignSelf "class_converter_" (EConverter (ESelf "classification_mode") (ESelf "n_classes_") None) ]
          [ SAssignSelf "n_classes_" (EMax2 (EInt 2) (EAdd (EItem (EMaxAll (EName "y_train_and_val"))) (EInt 1)));
            SAssignSelf "class_converter_" (EConverter (ESelf "classification_mode") (ESelf "n_classes_") (Some y));
            SAssign "y" (ELabelsToNum (ESelf "class_converter_") y);
            SAssign "y_val" (ELabelsToNum (ESelf "class_converter_") yv) ];
        SAssignSelf "extra_rfm_params_" (EDict [("class_converter", ESelf "class_converter_")]) ]
      [ SAssignSelf "n_classes_" (EInt 0);
        SAssign "y" (EFloat y);
        SAssign "y_val" (EFloat yv);
        SIf (ECmp CEq (ELenShape y) (EInt 1)) [ SAssign "y" (EUnsqueezeLast y) ] [];
        SIf (ECmp CEq (ELenShape yv) (EInt 1)) [ SAssign "y_val" (EUnsqueezeLast yv) ] [];
        SAssert (ECmp CEq (ELenShape y) (EInt 2));
        SAssignSelf "extra_rfm_params_" (EDict []) ] ].

Example ref_prog_accepted : prog_okb ref_prog = true.
Proof. vm_compute. reflexivity. Qed.

(* the historical defect: in the regression branch the training targets are reshaped to (n,1), the validation targets are not *)
Definition bad_prog_reshape_y_only : list stmt :=
  [ SAssign "y" (ETo (EAsTensor y) (ESelf "device"));
    SAssign "y_val" (ETo (EAsTensor yv) (ESelf "device"));
    SAssign "is_class" (EBool false);
    SAssignSelf "n_classes_" (EInt 0);
    SAssign "y" (EFloat y);
    SAssign "y_val" (EFloat yv);
    SIf (ECmp CEq (ELenShape y) (EInt 1)) [ SAssign "y" (EUnsqueezeLast y) ] [];
    SAssert (ECmp CEq (ELenShape y) (EInt 2)) ].

Example bad_prog_rejected : prog_okb bad_prog_reshape_y_only = false.
Proof. vm_compute. reflexivity. Qed.

(* ... and precisely because of the format mismatch: on a regression metric with float32 (n,) targets the run succeeds,
   y is (n,1) and y_val is (n,), so there is no outcome *)
Example bad_prog_mismatch :
  exists g, run (cfg (RegMetric, ZeroOne, 2, Tensor, F32, Flat)) (init (RegMetric, ZeroOne, 2, Tensor, F32, Flat)) bad_prog_reshape_y_only = Some g /\
            lookup "y" (vars g) = Some (ATensor F32 Column) /\ lookup "y_val" (vars g) = Some (ATensor F32 Flat) /\ outcome g = None.
Proof. eexists. vm_compute. repeat split; reflexivity. Qed.

(* other rejected variants: dropping the reshape altogether (seeded change C20_a), casting only when the target is 1-D,
   taking the number of classes from the wrong place *)
Definition drop_reshape (p : list stmt) : list stmt :=
  ([ SAssign "y" (ETo (EAsTensor y) (ESelf "device"));
    SAssign "y_val" (ETo (EAsTensor yv) (ESelf "device"));
    SAssignSelf "n_classes_" (EInt 0);
    SAssign "y" (EFloat y);
    SAssign "y_val" (EFloat yv) ] ++ p)%list.
Example no_reshape_rejected : prog_okb (drop_reshape []) = false.
Proof. vm_compute. reflexivity. Qed.

(* a statement outside the fragment (an expression statement that is not print) makes the run fail, hence the checker *)
Example outside_fragment_rejected : prog_okb (ref_prog ++ [SExpr (EName "y")])%list = false.
Proof. vm_compute. reflexivity. Qed.
