(* Proofs about Model/Metrics.v: ranges, and perfect predictions are optimal in the declared direction. *)
From Coq Require Import QArith Qabs List Bool Arith Lia Lqa.
Require Import XV.Model.Tree XV.Model.Soft XV.Model.Labels XV.Model.Metrics XV.Proofs.SoftProofs XV.Proofs.LabelsProofs.
Import ListNotations.
Local Open Scope Q_scope.

Lemma inject_nat_nonneg n : 0 <= inject_Z (Z.of_nat n).
Proof. change 0 with (inject_Z 0). rewrite <- Zle_Qle. lia. Qed.

Lemma qmean_nonneg l : Forall (fun x => 0 <= x) l -> 0 <= qmean l.
Proof.
  intros H. unfold qmean. pose proof (qsum_nonneg l H) as Hs. pose proof (inject_nat_nonneg (length l)) as Hn.
  unfold Qdiv. apply Qmult_le_0_compat; [exact Hs|]. apply Qinv_le_0_compat. exact Hn.
Qed.

Lemma qsum_zero l : Forall (fun x => x == 0) l -> qsum l == 0.
Proof. induction 1 as [|x l Hx Hl IH]; cbn; [lra|]. rewrite Hx, IH. lra. Qed.

Lemma qmean_zero l : Forall (fun x => x == 0) l -> qmean l == 0.
Proof. intros H. unfold qmean. rewrite (qsum_zero l H). unfold Qdiv. lra. Qed.

Lemma combine_self {A} (l : list A) : forall x, In x (combine l l) -> fst x = snd x.
Proof. induction l as [|a l IH]; intros x H; [destruct H|]. cbn in H. destruct H as [<-|H]; [reflexivity|apply IH; exact H]. Qed.

(* ---- losses: non-negative, zero at perfect predictions ---- *)
Theorem mse_nonneg t p : 0 <= mse t p.
Proof.
  unfold mse. apply qmean_nonneg. apply Forall_forall. intros x Hx. apply in_map_iff in Hx. destruct Hx as [ab [<- _]].
  generalize (fst ab - snd ab). intros u. nra.
Qed.
Theorem mse_perfect t : mse t t == 0.
Proof.
  unfold mse, pairs. apply qmean_zero. apply Forall_forall. intros x Hx. apply in_map_iff in Hx. destruct Hx as [ab [<- Hab]].
  apply combine_self in Hab. rewrite Hab. lra.
Qed.
Theorem mae_nonneg t p : 0 <= mae t p.
Proof.
  unfold mae. apply qmean_nonneg. apply Forall_forall. intros x Hx. apply in_map_iff in Hx. destruct Hx as [ab [<- _]].
  apply Qabs_nonneg.
Qed.
Theorem mae_perfect t : mae t t == 0.
Proof.
  unfold mae, pairs. apply qmean_zero. apply Forall_forall. intros x Hx. apply in_map_iff in Hx. destruct Hx as [ab [<- Hab]].
  apply combine_self in Hab. rewrite Hab. setoid_replace (snd ab - snd ab) with 0 by lra. reflexivity.
Qed.
Theorem brier_nonneg y P : 0 <= brier y P.
Proof. apply mse_nonneg. Qed.

(* ---- accuracy ---- *)
Lemma filter_len_le {A} (f : A -> bool) l : (length (filter f l) <= length l)%nat.
Proof. induction l as [|x l IH]; cbn; [lia|]. destruct (f x); cbn; lia. Qed.

Lemma countb2_le {A B} (f : A -> B -> bool) a b : (countb2 f a b <= length b)%nat.
Proof.
  unfold countb2. eapply Nat.le_trans; [apply filter_len_le|]. rewrite combine_length. lia.
Qed.

Theorem accuracy_range y P : P <> [] -> 0 <= accuracy y P <= 1.
Proof.
  intros Hne. unfold accuracy. set (c := countb2 Nat.eqb y (map argmax P)).
  assert (Hc : (c <= length P)%nat) by (unfold c; eapply Nat.le_trans; [apply countb2_le|rewrite map_length; lia]).
  assert (Hn : 1 <= inject_Z (Z.of_nat (length P))) by (apply inject_len_ge1; exact Hne).
  assert (Hc' : inject_Z (Z.of_nat c) <= inject_Z (Z.of_nat (length P))) by (rewrite <- Zle_Qle; lia).
  pose proof (inject_nat_nonneg c). split.
  - unfold Qdiv. apply Qmult_le_0_compat; [assumption|]. apply Qinv_le_0_compat. lra.
  - apply Qle_shift_div_r; lra.
Qed.

Lemma countb2_all {A B} (f : A -> B -> bool) : forall a b, length a = length b ->
  (forall x, In x (combine a b) -> f (fst x) (snd x) = true) -> countb2 f a b = length b.
Proof.
  unfold countb2. induction a as [|x a IH]; intros [|y b] Hl H; try discriminate; [reflexivity|].
  cbn in Hl. injection Hl as Hl. cbn [combine filter]. rewrite (H (x, y) (or_introl eq_refl)). cbn [length].
  f_equal. apply IH; [exact Hl|]. intros z Hz. apply H. right. exact Hz.
Qed.

Theorem accuracy_perfect y P : P <> [] -> map argmax P = y -> accuracy y P == 1.
Proof.
  intros Hne E. unfold accuracy. rewrite <- E. rewrite countb2_all.
  - rewrite map_length. field. pose proof (inject_len_ge1 P Hne). lra.
  - reflexivity.
  - intros x Hx. apply combine_self in Hx. rewrite Hx. apply Nat.eqb_refl.
Qed.

(* ---- F1 ---- *)
Theorem f1_class_range c y yhat : 0 <= f1_class c y yhat <= 1.
Proof.
  unfold f1_class. set (tp := countb2 _ y yhat). set (fp := countb2 _ y yhat). set (fn := countb2 _ y yhat).
  destruct (Nat.eqb (2 * tp + fp + fn) 0) eqn:E; [lra|]. apply Nat.eqb_neq in E.
  assert (Hd : 1 <= inject_Z (Z.of_nat (2 * tp + fp + fn))).
  { change 1 with (inject_Z 1). rewrite <- Zle_Qle. lia. }
  assert (Hn : inject_Z (Z.of_nat (2 * tp)) <= inject_Z (Z.of_nat (2 * tp + fp + fn))) by (rewrite <- Zle_Qle; lia).
  pose proof (inject_nat_nonneg (2 * tp)). split.
  - unfold Qdiv. apply Qmult_le_0_compat; [assumption|]. apply Qinv_le_0_compat. lra.
  - apply Qle_shift_div_r; lra.
Qed.

Lemma countb2_none {A B} (f : A -> B -> bool) : forall a b,
  (forall x, In x (combine a b) -> f (fst x) (snd x) = false) -> countb2 f a b = 0%nat.
Proof.
  unfold countb2. intros a b H. induction (combine a b) as [|x l IH]; [reflexivity|]. cbn.
  rewrite (H x (or_introl eq_refl)). apply IH. intros z Hz. apply H. right. exact Hz.
Qed.

Theorem f1_class_perfect c y : In c y -> f1_class c y y == 1.
Proof.
  intros Hin. unfold f1_class.
  rewrite (countb2_none (fun a b => negb (Nat.eqb a c) && Nat.eqb b c) y y).
  2:{ intros x Hx. apply combine_self in Hx. rewrite Hx. destruct (Nat.eqb (snd x) c); reflexivity. }
  rewrite (countb2_none (fun a b => Nat.eqb a c && negb (Nat.eqb b c)) y y).
  2:{ intros x Hx. apply combine_self in Hx. rewrite Hx. destruct (Nat.eqb (snd x) c); reflexivity. }
  set (tp := countb2 _ y y).
  assert (Htp : (1 <= tp)%nat).
  { unfold tp, countb2. clear tp. induction y as [|a y IH]; [destruct Hin|]. cbn [combine filter fst snd].
    destruct Hin as [->|Hin]; [rewrite Nat.eqb_refl; cbn; lia|]. specialize (IH Hin). destruct (Nat.eqb a c && Nat.eqb a c); cbn; lia. }
  replace (2 * tp + 0 + 0)%nat with (2 * tp)%nat by lia.
  destruct (Nat.eqb (2 * tp) 0) eqn:E; [apply Nat.eqb_eq in E; lia|].
  field. intros Hc. assert (1 <= inject_Z (Z.of_nat (2 * tp))) by (change 1 with (inject_Z 1); rewrite <- Zle_Qle; lia). lra.
Qed.

(* ---- AUC ---- *)
Lemma pair_score_range a b : 0 <= pair_score a b <= 1.
Proof. unfold pair_score. destruct (Qle_bool a b); [destruct (Qle_bool b a)|]; lra. Qed.

Lemma qsum_bounds (f : Q -> Q) (l : list Q) lo hi : (forall x, lo <= f x <= hi) ->
  inject_Z (Z.of_nat (length l)) * lo <= qsum (map f l) <= inject_Z (Z.of_nat (length l)) * hi.
Proof.
  intros H. induction l as [|x l IH]; [cbn; change (inject_Z 0) with 0; lra|]. cbn [length map qsum].
  rewrite Nat2Z.inj_succ. unfold Z.succ. rewrite inject_Z_plus. change (inject_Z 1) with 1. specialize (H x). nra.
Qed.

Theorem auc_bin_range pos neg : pos <> [] -> neg <> [] -> 0 <= auc_bin pos neg <= 1.
Proof.
  intros Hp Hn. unfold auc_bin.
  assert (B : forall a, 0 <= qsum (map (pair_score a) neg) <= inject_Z (Z.of_nat (length neg))).
  { intros a. pose proof (qsum_bounds (pair_score a) neg 0 1 (pair_score_range a)). lra. }
  pose proof (qsum_bounds (fun a => qsum (map (pair_score a) neg)) pos 0 (inject_Z (Z.of_nat (length neg))) B) as G.
  rewrite Nat2Z.inj_mul, inject_Z_mult.
  pose proof (inject_len_ge1 pos Hp). pose proof (inject_len_ge1 neg Hn).
  set (P := inject_Z (Z.of_nat (length pos))) in *. set (N := inject_Z (Z.of_nat (length neg))) in *.
  assert (0 < P * N) by nra. split.
  - apply Qle_shift_div_l; [assumption|]. lra.
  - apply Qle_shift_div_r; [assumption|]. lra.
Qed.

Theorem auc_bin_perfect pos neg : pos <> [] -> neg <> [] ->
  (forall a b, In a pos -> In b neg -> b < a) -> auc_bin pos neg == 1.
Proof.
  intros Hp Hn Hsep. unfold auc_bin.
  assert (E : forall l, (forall a, In a l -> In a pos) ->
              qsum (map (fun a => qsum (map (pair_score a) neg)) l) == inject_Z (Z.of_nat (length l)) * inject_Z (Z.of_nat (length neg))).
  { induction l as [|a l IH]; intros Hl; [cbn; change (inject_Z 0) with 0; lra|]. cbn [map qsum length].
    rewrite IH by (intros z Hz; apply Hl; right; exact Hz).
    assert (Ea : qsum (map (pair_score a) neg) == inject_Z (Z.of_nat (length neg))).
    { assert (Hall : forall b, In b neg -> pair_score a b == 1).
      { intros b Hb. unfold pair_score. specialize (Hsep a b (Hl a (or_introl eq_refl)) Hb).
        destruct (Qle_bool a b) eqn:E1; [apply Qle_bool_iff in E1; lra|reflexivity]. }
      clear -Hall. induction neg as [|b neg IH]; [cbn; change (inject_Z 0) with 0; lra|]. cbn [map qsum length].
      rewrite (Hall b (or_introl eq_refl)), IH by (intros z Hz; apply Hall; right; exact Hz).
      rewrite Nat2Z.inj_succ. unfold Z.succ. rewrite inject_Z_plus. change (inject_Z 1) with 1. lra. }
    rewrite Ea, Nat2Z.inj_succ. unfold Z.succ. rewrite inject_Z_plus. change (inject_Z 1) with 1. lra. }
  rewrite (E pos (fun a H => H)), Nat2Z.inj_mul, inject_Z_mult.
  pose proof (inject_len_ge1 pos Hp). pose proof (inject_len_ge1 neg Hn). field. nra.
Qed.
