(* Proofs about Model/Split.v: sizes, termination, leaf bound, depth bound, split quota, accounting. *)
From Coq Require Import ZArith List Bool Lia Permutation Sorting.Sorted.
Require Import XV.Model.Split.
Import ListNotations.
Open Scope Z_scope.
Ltac Zify.zify_post_hook ::= Z.div_mod_to_equations.

(* ---------- sizes ---------- *)
Lemma split_sizes n o : 0 <= o <= n ->
  left_unique n o + right_unique n o = n - o /\
  right_unique n o <= left_unique n o <= right_unique n o + 1 /\
  left_size n o = left_unique n o + o /\
  right_size n o = right_unique n o + o /\
  left_size n o + right_size n o = n + o.
Proof.
  unfold left_size, right_size, overlap_end, overlap_start, left_unique, right_unique, remaining. intros H. lia.
Qed.

Lemma halves_are_ceil_floor n o : 0 <= o <= n ->
  2 * left_unique n o >= n - o /\ 2 * left_unique n o <= n - o + 1 /\
  2 * right_unique n o <= n - o /\ 2 * right_unique n o >= n - o - 1.
Proof. unfold left_unique, right_unique, remaining. intros. lia. Qed.

Lemma children_smaller n o : 0 <= o -> n - o >= 2 ->
  1 <= right_size n o /\ right_size n o <= left_size n o /\ left_size n o < n.
Proof.
  unfold left_size, right_size, overlap_end, overlap_start, left_unique, right_unique, remaining. intros. lia.
Qed.

(* ---------- termination, leaf bound ---------- *)
Definition ov_ok (L : Z) (ov : Z -> Z) : Prop := forall m, L < m -> 0 <= ov m /\ m - ov m >= 2.

Lemma build_terminates_None : forall fuel L ov cnt n,
  ov_ok L ov -> 1 <= n -> n <= Z.of_nat fuel ->
  exists s, build fuel L ov None cnt n = Ok s (cnt + nsplits s) /\ size_of s = n /\
            shape_ok L ov s = true /\ splits_needed L s = true.
Proof.
  induction fuel as [|f IH]; intros L ov cnt n Hov Hn Hf; [lia|].
  cbn [build]. rewrite andb_true_r.
  destruct (n <=? L) eqn:HL.
  - exists (SLeaf n). cbn. rewrite HL. repeat split; try reflexivity. f_equal; lia.
  - apply Z.leb_gt in HL. destruct (Hov n HL) as [Ho0 Ho2].
    destruct (children_smaller n (ov n) Ho0 Ho2) as (Hr1 & Hrl & Hln).
    replace ((left_size n (ov n) <=? 0) || (right_size n (ov n) <=? 0)) with false
      by (symmetry; apply orb_false_iff; split; apply Z.leb_gt; lia).
    destruct (IH L ov (cnt + 1) (left_size n (ov n)) Hov ltac:(lia) ltac:(lia)) as (l & El & Sl & Okl & Nl).
    rewrite El.
    destruct (IH L ov (cnt + 1 + nsplits l) (right_size n (ov n)) Hov ltac:(lia) ltac:(lia)) as (r & Er & Sr & Okr & Nr).
    rewrite Er. exists (SNode n l r). cbn [nsplits size_of shape_ok splits_needed].
    rewrite Sl, Sr, Okl, Okr, Nl, Nr, !Z.eqb_refl. replace (L <? n) with true by (symmetry; apply Z.ltb_lt; lia).
    repeat split; try reflexivity. f_equal. lia.
Qed.

Lemma shape_ok_leaves L ov s : shape_ok L ov s = true -> Forall (fun k => k <= L) (leaves s).
Proof.
  induction s as [n|n l IHl r IHr]; cbn; intros H.
  - constructor; [apply Z.leb_le; exact H|constructor].
  - apply andb_prop in H as [H Hr]. apply andb_prop in H as [H Hl]. apply Forall_app; split; auto.
Qed.

(* ---------- split quota ---------- *)
Lemma build_count : forall fuel L ov quota cnt n s c,
  build fuel L ov quota cnt n = Ok s c ->
  c = cnt + nsplits s /\ match quota with Some q => q <= c | None => True end.
Proof.
  induction fuel as [|f IH]; intros L ov quota cnt n s c H; [discriminate|].
  cbn [build] in H.
  destruct ((n <=? L) && match quota with None => true | Some q => q <=? cnt end) eqn:E.
  - inversion H; subst. cbn. split; [lia|]. destruct quota as [q|]; [|exact I].
    apply andb_prop in E as [_ E]. apply Z.leb_le in E. exact E.
  - destruct ((left_size n (ov n) <=? 0) || (right_size n (ov n) <=? 0)); [discriminate|].
    destruct (build f L ov quota (cnt + 1) (left_size n (ov n))) as [l c1| |] eqn:El; try discriminate.
    destruct (build f L ov quota c1 (right_size n (ov n))) as [r c2| |] eqn:Er; try discriminate.
    inversion H; subst. apply IH in El as [E1 Q1]. apply IH in Er as [E2 Q2]. cbn [nsplits]. split; [lia|exact Q2].
Qed.

(* every tree the recursion returns is locally well formed, whatever the quota *)
Lemma build_shape_sizes : forall fuel L ov quota cnt n s c,
  build fuel L ov quota cnt n = Ok s c -> size_of s = n.
Proof.
  destruct fuel as [|f]; intros L ov quota cnt n s c H; [discriminate|]. cbn [build] in H.
  destruct ((n <=? L) && match quota with None => true | Some q => q <=? cnt end).
  - inversion H; reflexivity.
  - destruct ((left_size n (ov n) <=? 0) || (right_size n (ov n) <=? 0)); [discriminate|].
    destruct (build f L ov quota (cnt + 1) (left_size n (ov n))) as [l c1| |]; try discriminate.
    destruct (build f L ov quota c1 (right_size n (ov n))) as [r c2| |]; try discriminate.
    inversion H; reflexivity.
Qed.

Lemma build_shape_ok : forall fuel L ov quota cnt n s c,
  build fuel L ov quota cnt n = Ok s c -> shape_ok L ov s = true.
Proof.
  induction fuel as [|f IH]; intros L ov quota cnt n s c H; [discriminate|]. cbn [build] in H.
  destruct ((n <=? L) && match quota with None => true | Some q => q <=? cnt end) eqn:E.
  - inversion H; subst. cbn. apply andb_prop in E as [E _]. exact E.
  - destruct ((left_size n (ov n) <=? 0) || (right_size n (ov n) <=? 0)); [discriminate|].
    destruct (build f L ov quota (cnt + 1) (left_size n (ov n))) as [l c1| |] eqn:El; try discriminate.
    destruct (build f L ov quota c1 (right_size n (ov n))) as [r c2| |] eqn:Er; try discriminate.
    inversion H; subst. cbn [shape_ok].
    rewrite (build_shape_sizes _ _ _ _ _ _ _ _ El), (build_shape_sizes _ _ _ _ _ _ _ _ Er), !Z.eqb_refl.
    rewrite (IH _ _ _ _ _ _ _ El), (IH _ _ _ _ _ _ _ Er). reflexivity.
Qed.

(* ---------- depth bound with zero overlap ---------- *)
Lemma height_bound L s : 1 <= L ->
  shape_ok L (fun _ => 0) s = true -> splits_needed L s = true ->
  forall k : nat, size_of s <= L * 2 ^ Z.of_nat k -> (height s <= k)%nat.
Proof.
  intros HL. induction s as [n|n l IHl r IHr]; cbn [shape_ok splits_needed height size_of]; intros Hok Hn k Hk.
  - lia.
  - apply andb_prop in Hok as [Hok Hokr]. apply andb_prop in Hok as [Hok Hokl]. apply andb_prop in Hok as [Hsl Hsr].
    apply andb_prop in Hn as [Hn Hnr]. apply andb_prop in Hn as [Hn Hnl].
    apply Z.ltb_lt in Hn. apply Z.eqb_eq in Hsl, Hsr.
    destruct k as [|k]; [cbn in Hk; lia|].
    rewrite Nat2Z.inj_succ, Z.pow_succ_r in Hk by lia.
    assert (Hl : size_of l <= L * 2 ^ Z.of_nat k).
    { rewrite Hsl. unfold left_size, left_unique, remaining. lia. }
    assert (Hr : size_of r <= L * 2 ^ Z.of_nat k).
    { rewrite Hsr. unfold right_size, overlap_end, overlap_start, left_unique, remaining. lia. }
    specialize (IHl Hokl Hnl k Hl). specialize (IHr Hokr Hnr k Hr). lia.
Qed.

Lemma clog_aux_spec n L : 1 <= L -> forall fuel k,
  n <= L * 2 ^ Z.of_nat (k + fuel) -> n <= L * 2 ^ Z.of_nat (clog_aux fuel n L k).
Proof.
  intros HL. induction fuel as [|f IH]; intros k H; cbn [clog_aux].
  - rewrite Nat.add_0_r in H. exact H.
  - destruct (n <=? L * 2 ^ Z.of_nat k) eqn:E; [apply Z.leb_le; exact E|].
    apply IH. replace (S k + f)%nat with (k + S f)%nat by lia. exact H.
Qed.

Lemma clog_aux_min n L : forall fuel k j,
  (k <= j)%nat -> n <= L * 2 ^ Z.of_nat j -> (clog_aux fuel n L k <= j)%nat.
Proof.
  induction fuel as [|f IH]; intros k j Hkj Hj; cbn [clog_aux]; [exact Hkj|].
  destruct (n <=? L * 2 ^ Z.of_nat k) eqn:E; [exact Hkj|].
  apply Z.leb_gt in E. apply IH; [|exact Hj].
  destruct (Nat.eq_dec k j) as [->|]; [lia|lia].
Qed.

Lemma pow2_ge n : 0 <= n -> n <= 2 ^ n.
Proof.
  intros H. pattern n. apply natlike_ind; [cbn; lia| |exact H].
  intros x Hx IH. rewrite Z.pow_succ_r by lia. lia.
Qed.

Lemma clog_spec n L : 1 <= L -> 1 <= n -> n <= L * 2 ^ Z.of_nat (clog n L).
Proof.
  intros HL Hn. unfold clog. apply clog_aux_spec; [exact HL|]. cbn [Nat.add].
  rewrite Z2Nat.id by lia. pose proof (pow2_ge n ltac:(lia)). nia.
Qed.

Lemma clog_min n L j : n <= L * 2 ^ Z.of_nat j -> (clog n L <= j)%nat.
Proof. intros H. unfold clog. apply clog_aux_min; [lia|exact H]. Qed.

(* ---------- accounting (C07) ---------- *)
Lemma insert_nat_perm x l : Permutation (insert_nat x l) (x :: l).
Proof.
  induction l as [|y t IH]; cbn; [reflexivity|]. destruct (Nat.leb x y); [reflexivity|].
  rewrite IH. apply perm_swap.
Qed.
Lemma sort_nat_perm l : Permutation (sort_nat l) l.
Proof. induction l as [|x t IH]; cbn; [reflexivity|]. rewrite insert_nat_perm. constructor. exact IH. Qed.
Lemma list_nat_eqb_eq a : forall b, list_nat_eqb a b = true -> a = b.
Proof.
  induction a as [|x a IH]; destruct b as [|y b]; cbn; intros H; try discriminate; [reflexivity|].
  apply andb_prop in H as [H1 H2]. apply Nat.eqb_eq in H1. subst. f_equal. apply IH. exact H2.
Qed.
Lemma perm_natb_sound a b : perm_natb a b = true -> Permutation a b.
Proof.
  unfold perm_natb. intros H. apply list_nat_eqb_eq in H.
  rewrite <- (sort_nat_perm a), <- (sort_nat_perm b), H. reflexivity.
Qed.

Lemma rtree_accounting : forall t root min_val,
  rtree_okb root min_val t = true -> Permutation (rrecv t) (all_used t).
Proof.
  induction t as [recv kept moved nval|ids l IHl r IHr]; intros root mv H; cbn [rtree_okb] in H.
  - apply andb_prop in H as [H _]. apply perm_natb_sound in H. unfold all_used. cbn. rewrite app_nil_r. exact H.
  - repeat (apply andb_prop in H as [H ?]).
    apply perm_natb_sound in H. cbn [rrecv]. eapply Permutation_trans; [exact H|]. unfold all_used in *. cbn [rleaves].
    rewrite map_app, concat_app. apply Permutation_app; [eapply IHl|eapply IHr]; eassumption.
Qed.

Lemma refill_count_bounds n_val n_train min_val cap : 0 <= cap ->
  0 <= refill_count n_val n_train min_val cap <= cap /\
  (n_val <= min_val -> refill_count n_val n_train min_val cap <= min_val - n_val) /\
  (min_val < n_val -> refill_count n_val n_train min_val cap = 0).
Proof.
  unfold refill_count. intros. destruct (n_val <=? min_val) eqn:E; [apply Z.leb_le in E|apply Z.leb_gt in E]; lia.
Qed.

Fixpoint rleaf_refill_ok (is_root : bool) (min_val : Z) (t : rtree) : Prop :=
  match t with
  | RLeaf recv kept moved nval =>
      Z.of_nat (length moved) =
        (if is_root then 0 else refill_count nval (Z.of_nat (length recv)) min_val (Z.of_nat (length recv) / 5))
  | RNode _ l r => rleaf_refill_ok false min_val l /\ rleaf_refill_ok false min_val r
  end.

Lemma rtree_refill : forall t root min_val, rtree_okb root min_val t = true -> rleaf_refill_ok root min_val t.
Proof.
  induction t as [recv kept moved nval|ids l IHl r IHr]; intros root mv H; cbn [rtree_okb] in H; cbn [rleaf_refill_ok].
  - apply andb_prop in H as [_ H]. apply Z.eqb_eq in H. exact H.
  - repeat (apply andb_prop in H as [H ?]). split; [eapply IHl|eapply IHr]; eassumption.
Qed.

(* the generative model of the refill: any permutation returned by randperm keeps every sample exactly once *)
Lemma map_nth_seq {A} (d : A) (l : list A) : map (fun p => nth p l d) (seq 0 (length l)) = l.
Proof.
  induction l as [|x t IH]; cbn; [reflexivity|]. f_equal.
  rewrite <- seq_shift, map_map. exact IH.
Qed.

Lemma refill_partition {A} (d : A) (perm : list nat) (k : Z) (ids : list A) :
  Permutation perm (seq 0 (length ids)) ->
  Permutation ids (refill_kept d perm k ids ++ refill_moved d perm k ids).
Proof.
  intros Hp. unfold refill_kept, refill_moved, take_ids.
  rewrite Permutation_app_comm, <- map_app, firstn_skipn.
  rewrite (Permutation_map _ Hp), map_nth_seq. reflexivity.
Qed.

Lemma refill_moved_length {A} (d : A) (perm : list nat) (k : Z) (ids : list A) :
  0 <= k <= Z.of_nat (length perm) -> Z.of_nat (length (refill_moved d perm k ids)) = k.
Proof.
  intros H. unfold refill_moved, take_ids. rewrite map_length, firstn_length. lia.
Qed.

(* zero overlap: the two children partition the sorted samples *)
Lemma split_partition {A} (sorted : list A) : split_left sorted 0 ++ split_right sorted 0 = sorted.
Proof.
  unfold split_left, split_right, left_size. rewrite Z.add_0_r. apply firstn_skipn.
Qed.

Lemma split_lengths {A} (sorted : list A) o : 0 <= o <= Z.of_nat (length sorted) ->
  Z.of_nat (length (split_left sorted o)) = left_size (Z.of_nat (length sorted)) o /\
  Z.of_nat (length (split_right sorted o)) = right_size (Z.of_nat (length sorted)) o.
Proof.
  intros H. unfold split_left, split_right. rewrite firstn_length, skipn_length.
  pose proof (split_sizes _ _ H) as (H1 & H2 & H3 & H4 & H5).
  pose proof (halves_are_ceil_floor _ _ H).
  unfold right_size, overlap_end, overlap_start in *. lia.
Qed.

(* ---------- termination with a forced split count ---------- *)
Definition ov_ok2 (ov : Z -> Z) : Prop := forall m, 2 <= m -> 0 <= ov m /\ m - ov m >= 2.

Lemma pow2_half k n : 1 <= k -> 2 ^ k <= n -> 2 ^ (k - 1) <= n / 2.
Proof.
  intros Hk H. replace k with (Z.succ (k - 1)) in H by lia. rewrite Z.pow_succ_r in H by lia.
  apply Z.div_le_lower_bound; lia.
Qed.

Lemma nsplits_nonneg s : 0 <= nsplits s.
Proof. induction s as [n|n l IHl r IHr]; cbn [nsplits]; lia. Qed.

Lemma build_terminates_quota L ov q : 1 <= L -> ov_ok2 ov ->
  forall fuel cnt n, 1 <= n -> n <= Z.of_nat fuel -> 2 ^ (Z.max 0 (q - cnt)) <= n ->
  exists s c, build fuel L ov (Some q) cnt n = Ok s c.
Proof.
  intros HL Hov. induction fuel as [|f IH]; intros cnt n Hn Hf Hp; [lia|].
  cbn [build]. destruct ((n <=? L) && (q <=? cnt)) eqn:E; [eexists; eexists; reflexivity|].
  assert (Hn2 : 2 <= n).
  { apply andb_false_iff in E. destruct E as [E|E].
    - apply Z.leb_gt in E. lia.
    - apply Z.leb_gt in E. assert (1 <= Z.max 0 (q - cnt)) by lia.
      assert (2 ^ 1 <= 2 ^ Z.max 0 (q - cnt)) by (apply Z.pow_le_mono_r; lia). lia. }
  destruct (Hov n Hn2) as [Ho0 Ho2].
  destruct (children_smaller n (ov n) Ho0 Ho2) as (Hr1 & Hrl & Hln).
  replace ((left_size n (ov n) <=? 0) || (right_size n (ov n) <=? 0)) with false
    by (symmetry; apply orb_false_iff; split; apply Z.leb_gt; lia).
  assert (Hhalf : n / 2 <= right_size n (ov n)).
  { unfold right_size, overlap_end, overlap_start, left_unique, remaining. lia. }
  assert (Hk' : 2 ^ Z.max 0 (q - (cnt + 1)) <= right_size n (ov n)).
  { destruct (Z.le_gt_cases (q - cnt) 0) as [Hle|Hgt].
    - rewrite Z.max_l by lia. cbn. lia.
    - rewrite Z.max_r in Hp by lia. destruct (Z.eq_dec (q - cnt) 1) as [E1|E1].
      + rewrite Z.max_l by lia. cbn. lia.
      + rewrite Z.max_r by lia. replace (q - (cnt + 1)) with (q - cnt - 1) by lia.
        eapply Z.le_trans; [apply pow2_half; [lia|exact Hp]|exact Hhalf]. }
  destruct (IH (cnt + 1) (left_size n (ov n)) ltac:(lia) ltac:(lia) ltac:(lia)) as (l & c1 & El).
  rewrite El. pose proof (build_count _ _ _ _ _ _ _ _ El) as [Ec1 _].
  pose proof (nsplits_nonneg l) as Hns.
  assert (Hk'' : 2 ^ Z.max 0 (q - c1) <= right_size n (ov n)).
  { eapply Z.le_trans; [|exact Hk']. apply Z.pow_le_mono_r; lia. }
  destruct (IH c1 (right_size n (ov n)) ltac:(lia) ltac:(lia) Hk'') as (r & c2 & Er).
  rewrite Er. eexists; eexists; reflexivity.
Qed.
