(* The deterministic truncation model (Soft.truncate: sort, smallest prefix reaching `keep`, cap, renormalise) is accepted by the
   relational checker Soft.trunc_okb that the correspondence evaluates on the implementation's output — for every weight vector,
   keep fraction, cap and slack.  So the checker is inhabited by the reference behaviour (it is not vacuous), and a disagreement
   between the implementation and the checker is a disagreement with this model up to ties and slack. *)
From Coq Require Import QArith List Bool Arith Lia Lqa Permutation Sorting.Sorted.
Require Import XV.Model.Tree XV.Model.Soft XV.Proofs.SoftProofs.
Import ListNotations.
Local Open Scope nat_scope.

(* ---------- list plumbing ---------- *)
Lemma nth_map_seq {A} (h : nat -> A) n i d : i < n -> nth i (map h (seq 0 n)) d = h i.
Proof.
  intros Hi. rewrite (nth_indep _ d (h 0)) by (rewrite map_length, seq_length; exact Hi).
  rewrite map_nth. f_equal. rewrite seq_nth by exact Hi. reflexivity.
Qed.

Lemma map_combine_seq {B} (F : nat -> Q -> B) (w : list Q) : forall a,
  map (fun iw : Q * nat => F (snd iw) (fst iw)) (combine w (seq a (length w))) =
  map (fun i => F i (nth (i - a) w 0%Q)) (seq a (length w)).
Proof.
  induction w as [|x w IH]; intros a; [reflexivity|]. cbn [length seq combine map fst snd].
  rewrite Nat.sub_diag. cbn [nth]. f_equal. rewrite IH. apply map_ext_in. intros i Hi. apply in_seq in Hi.
  replace (i - a) with (S (i - S a)) by lia. reflexivity.
Qed.

Lemma mask_as_seq (A : list nat) (w : list Q) :
  mask_weights A w = map (fun i => if memb_nat i A then nth i w 0%Q else 0%Q) (seq 0 (length w)).
Proof.
  unfold mask_weights, indexed.
  rewrite (map_combine_seq (fun i x => if memb_nat i A then x else 0%Q) w 0).
  apply map_ext. intros i. rewrite Nat.sub_0_r. reflexivity.
Qed.

Lemma in_indexed (w : list Q) x i : In (x, i) (indexed w) -> i < length w /\ x = nth i w 0%Q.
Proof.
  unfold indexed. intros H. destruct (In_nth _ _ (0%Q, 0) H) as [k [Hk E]].
  rewrite combine_length, seq_length, Nat.min_id in Hk.
  rewrite combine_nth in E by (rewrite seq_length; reflexivity). rewrite seq_nth in E by exact Hk.
  cbn in E. inversion E; subst. split; [exact Hk|reflexivity].
Qed.

Lemma indexed_in (w : list Q) i : i < length w -> In (nth i w 0%Q, i) (indexed w).
Proof.
  intros Hi. unfold indexed.
  replace (nth i w 0%Q, i) with (nth i (combine w (seq 0 (length w))) (0%Q, 0)).
  - apply nth_In. rewrite combine_length, seq_length, Nat.min_id. exact Hi.
  - rewrite combine_nth by (rewrite seq_length; reflexivity). rewrite seq_nth by exact Hi. reflexivity.
Qed.

Lemma map_snd_indexed (w : list Q) : map snd (indexed w) = seq 0 (length w).
Proof.
  unfold indexed. generalize 0. induction w as [|x w IH]; intros a; [reflexivity|]. cbn. f_equal. apply IH.
Qed.

Lemma memb_nat_In i l : memb_nat i l = true <-> In i l.
Proof.
  unfold memb_nat. rewrite existsb_exists. split.
  - intros [x [Hx E]]. apply Nat.eqb_eq in E. subst. exact Hx.
  - intros H. exists i. split; [exact H|apply Nat.eqb_refl].
Qed.

Lemma NoDup_app_l {A} (l1 l2 : list A) : NoDup (l1 ++ l2) -> NoDup l1.
Proof.
  induction l1 as [|a l1 IH]; intros H; [constructor|]. cbn in H. inversion H as [|? ? Hn Hd]; subst.
  constructor; [|apply IH; exact Hd]. intros Hin. apply Hn. apply in_or_app. left. exact Hin.
Qed.

Lemma filter_length_mono {A} (p q : A -> bool) l : (forall x, p x = true -> q x = true) ->
  length (filter p l) <= length (filter q l).
Proof.
  intros H. induction l as [|a l IH]; cbn; [lia|]. destruct (p a) eqn:P.
  - rewrite (H a P). cbn. lia.
  - destruct (q a); cbn; lia.
Qed.

Lemma keep_count_mono k1 k2 cap l : (k1 <= k2)%Q -> keep_count k1 cap l <= keep_count k2 cap l.
Proof.
  intros Hk. unfold keep_count.
  assert (H : length (filter (below k1) (prefix_sums l)) <= length (filter (below k2) (prefix_sums l))).
  { apply filter_length_mono. intros c Hc. unfold below in *. apply negb_true_iff in Hc. apply negb_true_iff.
    destruct (Qle_bool k2 c) eqn:E; [|reflexivity]. apply Qle_bool_iff in E.
    assert (Hc' : (k1 <= c)%Q) by lra. apply Qle_bool_iff in Hc'. congruence. }
  lia.
Qed.

Local Open Scope Q_scope.

Lemma qsum_filter_mask (p : nat -> bool) (h : nat -> Q) (l : list nat) :
  qsum (map (fun i => if p i then h i else 0) l) == qsum (map h (filter p l)).
Proof.
  induction l as [|a l IH]; cbn [map qsum filter]; [reflexivity|].
  destruct (p a); cbn [map qsum]; rewrite IH; lra.
Qed.

Lemma Qclose_refl_eq e x y : 0 <= e -> x == y -> Qclose e x y = true.
Proof.
  intros He E. unfold Qclose. apply andb_true_intro. split; apply Qle_bool_iff; lra.
Qed.

(* ---------- the theorem ---------- *)
Theorem truncate_accepted (e keep : Q) (cap : nat) (w : list Q) :
  0 <= e -> (1 <= cap)%nat -> w <> [] -> Forall (fun x => 0 < x) w ->
  trunc_okb e keep cap w (truncate keep cap w) = true.
Proof.
  intros He Hcap Hne Hpos.
  set (n := length w).
  set (s := sort_desc (indexed w)).
  set (K := keep_count keep cap (map fst s)).
  set (A := active_ids keep cap w).
  assert (HA : A = map snd (firstn K s)) by reflexivity.
  assert (Hperm : Permutation s (indexed w)) by apply sort_desc_perm.
  assert (Hlen_s : length s = n).
  { rewrite (Permutation_length Hperm). unfold indexed. rewrite combine_length, seq_length. apply Nat.min_id. }
  assert (Hn : (1 <= n)%nat) by (unfold n; destruct w; [congruence|cbn; lia]).
  assert (HK : (1 <= K <= Nat.min cap n)%nat).
  { unfold K. rewrite <- Hlen_s, <- (map_length fst s). apply keep_count_bounds; [exact Hcap|].
    intros E. apply (f_equal (@length Q)) in E. rewrite map_length, Hlen_s in E. cbn in E. lia. }
  assert (Hnd_s : NoDup (map snd s)).
  { apply (Permutation_NoDup (l := map snd (indexed w))); [apply Permutation_map, Permutation_sym, Hperm|].
    rewrite map_snd_indexed. apply seq_NoDup. }
  assert (HndA : NoDup A).
  { rewrite HA, <- firstn_map. apply (NoDup_app_l _ (skipn K (map snd s))). rewrite firstn_skipn. exact Hnd_s. }
  assert (HlenA : length A = K).
  { rewrite HA, map_length, firstn_length, Hlen_s. lia. }
  assert (HA_lt : forall i, In i A -> (i < n)%nat).
  { intros i Hi. rewrite HA in Hi. apply in_map_iff in Hi. destruct Hi as [[x j] [E Hin]]. cbn in E. subst j.
    apply in_firstn in Hin. apply (Permutation_in _ Hperm) in Hin. apply in_indexed in Hin. apply Hin. }
  (* weights are positive *)
  assert (Hw_pos : forall i, (i < n)%nat -> 0 < nth i w 0).
  { intros i Hi. rewrite Forall_forall in Hpos. apply Hpos. apply nth_In. exact Hi. }
  (* the masked weights and their total *)
  set (g := fun i => if memb_nat i A then nth i w 0 else 0).
  set (tot := qsum (mask_weights A w)).
  assert (Hmask : mask_weights A w = map g (seq 0 n)) by apply mask_as_seq.
  assert (Hg_nonneg : Forall (fun x => 0 <= x) (map g (seq 0 n))).
  { apply Forall_forall. intros x Hx. apply in_map_iff in Hx. destruct Hx as [i [<- Hi]]. apply in_seq in Hi.
    unfold g. destruct (memb_nat i A); [apply Qlt_le_weak, Hw_pos; lia|lra]. }
  assert (Htot_pos : 0 < tot).
  { destruct s as [|[x0 i0] s'] eqn:Es; [cbn in Hlen_s; lia|].
    assert (Hi0 : In i0 A).
    { rewrite HA. destruct K as [|K']; [lia|]. cbn. left. reflexivity. }
    assert (Hlt : (i0 < n)%nat) by (apply HA_lt; exact Hi0).
    assert (Hin : In (g i0) (map g (seq 0 n))) by (apply in_map, in_seq; lia).
    pose proof (qsum_ge_in _ _ Hg_nonneg Hin) as Hge.
    unfold tot. rewrite Hmask.
    assert (Hgi : g i0 = nth i0 w 0) by (unfold g; apply memb_nat_In in Hi0; rewrite Hi0; reflexivity).
    rewrite Hgi in Hge. specialize (Hw_pos i0 Hlt). lra. }
  assert (Hout : truncate keep cap w = map (fun i => g i / tot) (seq 0 n)).
  { unfold truncate. fold A. fold tot. rewrite Hmask, map_map. reflexivity. }
  assert (Hnth_out : forall i, (i < n)%nat -> nth i (truncate keep cap w) 0 = g i / tot).
  { intros i Hi. rewrite Hout. apply (nth_map_seq (fun i => g i / tot)). exact Hi. }
  (* which entries of the output are positive *)
  assert (Hact_pred : forall i, In i (seq 0 n) ->
            negb (Qle_bool (nth i (truncate keep cap w) 0) 0) = memb_nat i A).
  { intros i Hi. apply in_seq in Hi. rewrite Hnth_out by lia. unfold g. destruct (memb_nat i A) eqn:M.
    - apply negb_true_iff. destruct (Qle_bool (nth i w 0 / tot) 0) eqn:E; [|reflexivity].
      apply Qle_bool_iff in E. assert (0 < nth i w 0 / tot); [|lra].
      apply Qlt_shift_div_l; [exact Htot_pos|]. specialize (Hw_pos i ltac:(lia)). lra.
    - apply negb_false_iff. apply Qle_bool_iff. unfold Qdiv. lra. }
  assert (Hact : filter (fun i => negb (Qle_bool (nth i (truncate keep cap w) 0) 0)) (seq 0 n) =
                 filter (fun i => memb_nat i A) (seq 0 n)) by (apply filter_ext_in; exact Hact_pred).
  assert (Hina : filter (fun i => Qle_bool (nth i (truncate keep cap w) 0) 0) (seq 0 n) =
                 filter (fun i => negb (memb_nat i A)) (seq 0 n)).
  { apply filter_ext_in. intros i Hi. rewrite <- (Hact_pred i Hi), negb_involutive. reflexivity. }
  assert (Hlen_act : length (filter (fun i => memb_nat i A) (seq 0 n)) = K).
  { rewrite <- HlenA. apply Permutation_length. apply NoDup_Permutation; [apply NoDup_filter, seq_NoDup|exact HndA|].
    intros i. rewrite filter_In, memb_nat_In, in_seq. split; [intros [_ H]; exact H|].
    intros H. split; [specialize (HA_lt i H); lia|exact H]. }
  (* total of the active weights *)
  assert (Htot_eq : qsum (map (fun i => nth i w 0) (filter (fun i => memb_nat i A) (seq 0 n))) == tot).
  { unfold tot. rewrite Hmask. symmetry. apply (qsum_filter_mask (fun i => memb_nat i A) (fun i => nth i w 0)). }
  unfold trunc_okb. fold n. fold s. rewrite Hact, Hina, Hlen_act.
  repeat (apply andb_true_intro; split).
  - apply Nat.eqb_eq. rewrite Hout, map_length, seq_length. reflexivity.
  - apply Nat.leb_le. apply keep_count_mono. lra.
  - apply Nat.leb_le. apply keep_count_mono. lra.
  - (* top-weighted *)
    apply forallb_forall. intros i Hi. apply forallb_forall. intros j Hj.
    apply filter_In in Hi. destruct Hi as [Hi Mi]. apply filter_In in Hj. destruct Hj as [Hj Mj].
    apply in_seq in Hi. apply in_seq in Hj. apply negb_true_iff in Mj.
    apply Qle_bool_iff.
    apply memb_nat_In in Mi. rewrite HA in Mi. apply in_map_iff in Mi. destruct Mi as [[xi i'] [E Hin_i]]. cbn in E. subst i'.
    assert (Hxi : xi = nth i w 0).
    { apply in_firstn in Hin_i. apply (Permutation_in _ Hperm) in Hin_i. apply in_indexed in Hin_i. apply Hin_i. }
    assert (Hin_j : In (nth j w 0, j) (skipn K s)).
    { assert (Hjs : In (nth j w 0, j) s) by (apply (Permutation_in _ (Permutation_sym Hperm)), indexed_in; lia).
      rewrite <- (firstn_skipn K s) in Hjs. apply in_app_or in Hjs. destruct Hjs as [Hf|Hs]; [|exact Hs].
      exfalso. assert (In j A) by (rewrite HA; apply in_map_iff; exists (nth j w 0, j); split; [reflexivity|exact Hf]).
      apply memb_nat_In in H. congruence. }
    pose proof (sorted_prefix_top s K (sort_desc_sorted (indexed w)) _ _ Hin_i Hin_j) as Hle. cbn in Hle. subst xi. lra.
  - (* renormalised values *)
    apply forallb_forall. intros i Hi. apply filter_In in Hi. destruct Hi as [Hi Mi]. apply in_seq in Hi.
    rewrite Hnth_out by lia. unfold g. rewrite Mi. apply Qclose_refl_eq; [exact He|]. rewrite Htot_eq. reflexivity.
Qed.

(* the cap (3 of 4 leaves) cuts before the mass 9/10 is reached: leaves 1, 3, 2 stay, renormalised by 9/10 *)
Example truncate_accepted_example :
  trunc_okb 0 (9#10) 3 [1#10; 4#10; 2#10; 3#10] (truncate (9#10) 3 [1#10; 4#10; 2#10; 3#10]) = true.
Proof. vm_compute. reflexivity. Qed.
