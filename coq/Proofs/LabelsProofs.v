(* Proofs about Model/Labels.v *)
From Coq Require Import QArith Qminmax List Bool Arith Lia Lqa.
Require Import XV.Model.Tree XV.Model.Soft XV.Model.Labels XV.Proofs.SoftProofs.
Import ListNotations.
Local Open Scope Q_scope.

(* ---------- clamp ---------- *)
Lemma qclamp_bounds lo hi x : lo <= hi -> lo <= qclamp lo hi x <= hi.
Proof.
  intros H. unfold qclamp. destruct (Qle_bool x lo) eqn:E1; [lra|].
  destruct (Qle_bool hi x) eqn:E2; [lra|].
  assert (lo < x) by (apply Qnot_le_lt; intros Hc; apply Qle_bool_iff in Hc; congruence).
  assert (x < hi) by (apply Qnot_le_lt; intros Hc; apply Qle_bool_iff in Hc; congruence). lra.
Qed.

Lemma qclamp_mono lo hi x y : lo <= hi -> x <= y -> qclamp lo hi x <= qclamp lo hi y.
Proof.
  intros H Hxy. unfold qclamp.
  destruct (Qle_bool x lo) eqn:A1; destruct (Qle_bool y lo) eqn:B1;
  destruct (Qle_bool hi x) eqn:A2; destruct (Qle_bool hi y) eqn:B2;
  repeat match goal with
         | H : Qle_bool _ _ = true |- _ => apply Qle_bool_iff in H
         | H : Qle_bool ?a ?b = false |- _ => assert (b < a) by (apply Qnot_le_lt; intros Hc; apply Qle_bool_iff in Hc; congruence); clear H
         end; lra.
Qed.

Lemma qclamp_id lo hi x : lo < x -> x < hi -> qclamp lo hi x = x.
Proof.
  intros H1 H2. unfold qclamp.
  destruct (Qle_bool x lo) eqn:E1; [apply Qle_bool_iff in E1; lra|].
  destruct (Qle_bool hi x) eqn:E2; [apply Qle_bool_iff in E2; lra|]. reflexivity.
Qed.

(* ---------- a clamped, normalised row is a probability vector ---------- *)
Lemma qsum_ge_len (eps : Q) (l : list Q) : Forall (fun x => eps <= x) l -> inject_Z (Z.of_nat (length l)) * eps <= qsum l.
Proof.
  induction 1 as [|x l Hx Hl IH]; [cbn; change (inject_Z 0) with 0; lra|]. cbn [length qsum]. rewrite Nat2Z.inj_succ. unfold Z.succ.
  rewrite inject_Z_plus. change (inject_Z 1) with 1. nra.
Qed.
Lemma qsum_le_len (hi : Q) (l : list Q) : Forall (fun x => x <= hi) l -> qsum l <= inject_Z (Z.of_nat (length l)) * hi.
Proof.
  induction 1 as [|x l Hx Hl IH]; [cbn; change (inject_Z 0) with 0; lra|]. cbn [length qsum]. rewrite Nat2Z.inj_succ. unfold Z.succ.
  rewrite inject_Z_plus. change (inject_Z 1) with 1. nra.
Qed.

Lemma inject_len_ge1 {A} (v : list A) : v <> [] -> 1 <= inject_Z (Z.of_nat (length v)).
Proof.
  destruct v as [|a v']; [contradiction|]. intros _. cbn [length]. rewrite Nat2Z.inj_succ. unfold Z.succ.
  rewrite inject_Z_plus. change (inject_Z 1) with 1.
  assert (0 <= inject_Z (Z.of_nat (length v'))) by (change 0 with (inject_Z 0); rewrite <- Zle_Qle; lia). lra.
Qed.

Lemma Qdiv_le_compat (a a' b b' : Q) : 0 <= a -> a <= a' -> 0 < b' -> b' <= b -> a / b <= a' / b'.
Proof.
  intros Ha Haa Hb' Hbb. apply Qle_shift_div_r; [lra|].
  assert (E : a' / b' * b' == a') by (field; lra).
  assert (T : 0 <= a' / b') by (apply Qle_shift_div_l; [exact Hb'|lra]).
  set (t := a' / b') in *. nra.
Qed.

Theorem clamped_normalised_is_distribution (eps : Q) (v : list Q) :
  0 < eps -> eps < 1 # 2 -> v <> [] ->
  let p := normalise (map (qclamp eps (1 - eps)) v) in
  length p = length v /\ Forall (fun x => 0 < x) p /\ qsum p == 1 /\
  Forall (fun x => eps / (inject_Z (Z.of_nat (length v)) * (1 - eps)) <= x) p.
Proof.
  intros He Hh Hne. cbn zeta. unfold normalise. set (c := map (qclamp eps (1 - eps)) v).
  assert (Hb : Forall (fun x => eps <= x /\ x <= 1 - eps) c).
  { apply Forall_forall. intros x Hx. apply in_map_iff in Hx. destruct Hx as [y [<- _]]. apply qclamp_bounds. lra. }
  assert (Hlen : length c = length v) by apply map_length.
  assert (Hlo : inject_Z (Z.of_nat (length c)) * eps <= qsum c).
  { apply qsum_ge_len. eapply Forall_impl; [|exact Hb]. intros x [A _]; exact A. }
  assert (Hhi : qsum c <= inject_Z (Z.of_nat (length c)) * (1 - eps)).
  { apply qsum_le_len. eapply Forall_impl; [|exact Hb]. intros x [_ A]; exact A. }
  assert (Hn : 1 <= inject_Z (Z.of_nat (length c))).
  { rewrite Hlen. apply inject_len_ge1. exact Hne. }
  assert (Hpos : 0 < qsum c) by nra.
  split; [rewrite map_length; exact Hlen|]. split; [|split].
  - apply Forall_forall. intros y Hy. apply in_map_iff in Hy. destruct Hy as [x [<- Hx]].
    rewrite Forall_forall in Hb. destruct (Hb x Hx) as [A _].
    unfold Qdiv. apply Qmult_lt_0_compat; [lra|]. apply Qinv_lt_0_compat. exact Hpos.
  - rewrite qsum_map_div by lra. field. lra.
  - apply Forall_forall. intros y Hy. apply in_map_iff in Hy. destruct Hy as [x [<- Hx]].
    rewrite Forall_forall in Hb. destruct (Hb x Hx) as [A _]. rewrite <- Hlen.
    apply Qdiv_le_compat; [lra|exact A|exact Hpos|exact Hhi].
Qed.

(* ---------- argmax ---------- *)
Lemma argmax_from_le : forall v best bi i, Forall (fun x => x <= best) v -> argmax_from best bi i v = bi.
Proof.
  induction v as [|x t IH]; intros best bi i H; cbn; [reflexivity|]. inversion H as [|? ? Hx Ht]; subst.
  apply Qle_bool_iff in Hx. rewrite Hx. apply IH. exact Ht.
Qed.

Lemma argmax_from_unique : forall v best bi i k, (k < length v)%nat ->
  (forall j, (j < length v)%nat -> j <> k -> nth j v 0 < nth k v 0) -> best < nth k v 0 ->
  argmax_from best bi i v = (i + k)%nat.
Proof.
  induction v as [|x t IH]; intros best bi i k Hk Hu Hb; [cbn in Hk; lia|]. cbn [argmax_from].
  destruct k as [|k].
  - cbn in Hb. destruct (Qle_bool x best) eqn:E; [apply Qle_bool_iff in E; lra|].
    rewrite argmax_from_le; [lia|]. apply Forall_forall. intros y Hy. apply In_nth with (d := 0) in Hy.
    destruct Hy as (j & Hj & <-). specialize (Hu (S j) ltac:(cbn; lia) ltac:(discriminate)). cbn in Hu. lra.
  - cbn [nth] in Hb. assert (Hu' : forall j, (j < length t)%nat -> j <> k -> nth j t 0 < nth k t 0).
    { intros j Hj Hne. apply (Hu (S j)); [cbn; lia|lia]. }
    destruct (Qle_bool x best) eqn:E.
    + rewrite (IH best bi (S i) k); [lia|cbn in Hk; lia|exact Hu'|exact Hb].
    + rewrite (IH x i (S i) k); [lia|cbn in Hk; lia|exact Hu'|].
      specialize (Hu O ltac:(cbn; lia) ltac:(discriminate)). cbn in Hu. exact Hu.
Qed.

Theorem argmax_unique_max (v : list Q) (l : nat) : (l < length v)%nat ->
  (forall j, (j < length v)%nat -> j <> l -> nth j v 0 < nth l v 0) -> argmax v = l.
Proof.
  intros Hl Hu. destruct v as [|x t]; [cbn in Hl; lia|]. cbn [argmax]. destruct l as [|k].
  - apply argmax_from_le. apply Forall_forall. intros y Hy. apply In_nth with (d := 0) in Hy.
    destruct Hy as (j & Hj & <-). specialize (Hu (S j) ltac:(cbn; lia) ltac:(discriminate)). cbn in Hu. lra.
  - rewrite (argmax_from_unique t x O 1%nat k); [lia|cbn in Hl; lia| |].
    + intros j Hj Hne. apply (Hu (S j)); [cbn; lia|lia].
    + specialize (Hu O ltac:(cbn; lia) ltac:(discriminate)). cbn in Hu. exact Hu.
Qed.

Lemma argmax_from_range : forall v best bi i, argmax_from best bi i v = bi \/ (i <= argmax_from best bi i v < i + length v)%nat.
Proof.
  induction v as [|x t IH]; intros best bi i; cbn; [left; reflexivity|].
  destruct (Qle_bool x best).
  - destruct (IH best bi (S i)) as [H|H]; [left; exact H|right; lia].
  - destruct (IH x i (S i)) as [H|H]; right; lia.
Qed.

Theorem argmax_in_range (v : list Q) : v <> [] -> (argmax v < length v)%nat.
Proof.
  destruct v as [|x t]; [contradiction|]. intros _. cbn [argmax length].
  destruct (argmax_from_range t x O 1%nat) as [H|H]; lia.
Qed.

(* ---------- normalisation and clamping preserve a strict maximum ---------- *)
Lemma nth_normalise v j : nth j (normalise v) 0 == nth j v 0 / qsum v.
Proof.
  unfold normalise. destruct (Nat.lt_ge_cases j (length v)) as [H|H].
  - rewrite (nth_indep _ 0 (0 / qsum v)) by (rewrite map_length; exact H).
    rewrite (map_nth (fun x => x / qsum v)). reflexivity.
  - rewrite !nth_overflow by (try rewrite map_length; exact H). unfold Qdiv. lra.
Qed.

Lemma nth_map_clamp lo hi v j : (j < length v)%nat -> nth j (map (qclamp lo hi) v) 0 = qclamp lo hi (nth j v 0).
Proof.
  intros H. rewrite (nth_indep _ 0 (qclamp lo hi 0)) by (rewrite map_length; exact H). apply map_nth.
Qed.

(* decoding a vector that is within delta of the unit vector e_l gives label l *)
Theorem decode_near_unit_vector (eps delta : Q) (raw : list Q) (l : nat) :
  0 < eps -> eps < 1 # 2 -> 0 <= delta -> delta < 1 # 2 -> (l < length raw)%nat ->
  1 - delta <= nth l raw 0 ->
  (forall j, (j < length raw)%nat -> j <> l -> nth j raw 0 <= delta) ->
  argmax (normalise (map (qclamp eps (1 - eps)) raw)) = l.
Proof.
  intros He Hh Hd0 Hd Hl Hbig Hsmall.
  set (c := map (qclamp eps (1 - eps)) raw).
  assert (Hlen : length c = length raw) by apply map_length.
  assert (Hne : raw <> []) by (intros E; subst; cbn in Hl; lia).
  destruct (clamped_normalised_is_distribution eps raw He Hh Hne) as (Hpl & _ & _ & _). fold c in Hpl.
  assert (Hpos : 0 < qsum c).
  { assert (Hb : Forall (fun x => eps <= x) c).
    { apply Forall_forall. intros x Hx. apply in_map_iff in Hx. destruct Hx as [y [<- _]]. apply qclamp_bounds. lra. }
    pose proof (qsum_ge_len eps c Hb) as G. rewrite Hlen in G.
    assert (1 <= inject_Z (Z.of_nat (length raw))) by (apply inject_len_ge1; exact Hne).
    nra. }
  apply argmax_unique_max; [rewrite Hpl; exact Hl|].
  intros j Hj Hne'. rewrite Hpl in Hj. rewrite !nth_normalise. unfold c.
  rewrite !nth_map_clamp by assumption.
  assert (A : qclamp eps (1 - eps) (nth j raw 0) <= Qmax eps delta).
  { pose proof (Hsmall j Hj Hne') as S1. unfold qclamp.
    destruct (Qle_bool (nth j raw 0) eps) eqn:E1; [apply Q.le_max_l|].
    destruct (Qle_bool (1 - eps) (nth j raw 0)) eqn:E2; [apply Qle_bool_iff in E2; apply Qle_trans with delta; [lra|apply Q.le_max_r]|].
    apply Qle_trans with delta; [exact S1|apply Q.le_max_r]. }
  assert (B : Qmin (1 - eps) (1 - delta) <= qclamp eps (1 - eps) (nth l raw 0)).
  { unfold qclamp. destruct (Qle_bool (nth l raw 0) eps) eqn:E1; [apply Qle_bool_iff in E1; lra|].
    destruct (Qle_bool (1 - eps) (nth l raw 0)) eqn:E2; [apply Q.le_min_l|].
    apply Qle_trans with (1 - delta); [apply Q.le_min_r|exact Hbig]. }
  assert (C : Qmax eps delta < Qmin (1 - eps) (1 - delta)).
  { apply Q.max_lub_lt; apply Q.min_glb_lt; lra. }
  apply Qlt_shift_div_l; [exact Hpos|].
  assert (E : qclamp eps (1 - eps) (nth j raw 0) / qsum c * qsum c == qclamp eps (1 - eps) (nth j raw 0)) by (field; lra).
  fold c. rewrite E. lra.
Qed.

(* ---------- round trips ---------- *)
Lemma nth_one_hot K l j : (j < K)%nat -> nth j (one_hot K l) 0 = if Nat.eqb j l then 1 else 0.
Proof.
  intros H. unfold one_hot. rewrite (nth_indep _ 0 ((fun j => if Nat.eqb j l then 1 else 0) O)) by (rewrite map_length, seq_length; exact H).
  rewrite (map_nth (fun j => if Nat.eqb j l then 1 else 0)). rewrite seq_nth by exact H. reflexivity.
Qed.
Lemma one_hot_length K l : length (one_hot K l) = K.
Proof. unfold one_hot. rewrite map_length, seq_length. reflexivity. Qed.

Theorem roundtrip_zero_one (eps : Q) (K l : nat) : 0 < eps -> eps < 1 # 2 -> (2 <= K)%nat -> (l < K)%nat ->
  labels_zero_one eps (encode_zero_one K l) = l.
Proof.
  intros He Hh HK Hl. unfold labels_zero_one, probas_zero_one, encode_zero_one.
  destruct (Nat.eqb K 2) eqn:EK.
  - apply Nat.eqb_eq in EK. subst K.
    assert (l = 0 \/ l = 1)%nat as [->| ->] by lia.
    + change (inject_Z (Z.of_nat 0)) with 0.
      apply (decode_near_unit_vector eps 0 [1 - 0; 0] 0%nat He Hh); cbn; try lra; try lia.
      intros j Hj Hne. destruct j as [|[|j]]; cbn; try lra; try lia.
    + change (inject_Z (Z.of_nat 1)) with 1.
      apply (decode_near_unit_vector eps 0 [1 - 1; 1] 1%nat He Hh); cbn; try lra; try lia.
      intros j Hj Hne. destruct j as [|[|j]]; cbn; try lra; try lia.
  - apply Nat.eqb_neq in EK.
    assert (Hform : match one_hot K l with [x] => [1 - x; x] | _ => one_hot K l end = one_hot K l).
    { pose proof (one_hot_length K l) as Hlen. destruct (one_hot K l) as [|a [|b t]]; cbn in Hlen; try reflexivity; lia. }
    rewrite Hform.
    apply (decode_near_unit_vector eps 0 (one_hot K l) l He Hh); try lra.
    + rewrite one_hot_length. exact Hl.
    + rewrite nth_one_hot by exact Hl. rewrite Nat.eqb_refl. lra.
    + intros j Hj Hne. rewrite one_hot_length in Hj. rewrite nth_one_hot by exact Hj.
      apply Nat.eqb_neq in Hne. rewrite Hne. lra.
Qed.

Lemma Qlist_close_nth tol a : forall b, Qlist_close tol a b = true ->
  length a = length b /\ forall j, (j < length a)%nat -> nth j a 0 - nth j b 0 <= tol /\ nth j b 0 - nth j a 0 <= tol.
Proof.
  induction a as [|x a IH]; intros [|y b] H; cbn in H; try discriminate; [split; [reflexivity|intros j Hj; cbn in Hj; lia]|].
  apply andb_prop in H as [H1 H2]. unfold Qclose in H1. apply andb_prop in H1 as [A B]. apply Qle_bool_iff in A, B.
  destruct (IH b H2) as [Hl Hn]. split; [cbn; lia|]. intros [|j] Hj; cbn; [split; assumption|]. apply Hn. cbn in Hj. lia.
Qed.

(* prevalence: if the converter's actual matrices pass the checker (codes decode to within delta of the unit vectors) the
   round trip is exact in exact arithmetic *)
Theorem roundtrip_prevalence (eps delta : Q) (K : nat) (C invA : list (list Q)) (prior : list Q) (l : nat) :
  0 < eps -> eps < 1 # 2 -> 0 <= delta -> delta < 1 # 2 -> (l < K)%nat ->
  converter_okb delta K C invA prior = true ->
  labels_prevalence eps invA (encode_prevalence C l) = l.
Proof.
  intros He Hh Hd0 Hd Hl Hok. unfold converter_okb in Hok.
  repeat (apply andb_prop in Hok as [Hok ?]).
  match goal with H : forallb _ (seq 0 K) = true |- _ =>
    match type of H with context [raw_prevalence] => rename H into Hdec end end.
  rewrite forallb_forall in Hdec. specialize (Hdec l ltac:(apply in_seq; lia)).
  apply Qlist_close_nth in Hdec. destruct Hdec as [Hlen Hn]. rewrite one_hot_length in Hlen.
  unfold labels_prevalence, probas_prevalence, encode_prevalence.
  apply (decode_near_unit_vector eps delta _ l He Hh Hd0 Hd); [lia| |].
  - destruct (Hn l ltac:(lia)) as [_ B]. rewrite nth_one_hot in B by exact Hl. rewrite Nat.eqb_refl in B. lra.
  - intros j Hj Hne. destruct (Hn j Hj) as [A _]. rewrite nth_one_hot in A by lia.
    apply Nat.eqb_neq in Hne. rewrite Hne in A. lra.
Qed.

(* ---------- decoding is affine before clamping ---------- *)
Lemma dot_affine a : forall x y r, length x = length y ->
  dot (map (fun p => a * fst p + (1 - a) * snd p) (combine x y) ++ [1]) r == a * dot (x ++ [1]) r + (1 - a) * dot (y ++ [1]) r.
Proof.
  induction x as [|u x IH]; intros [|v y] r Hlen; try discriminate.
  - cbn. destruct r as [|r0 r]; cbn; lra.
  - cbn in Hlen. injection Hlen as Hlen. cbn [combine map app]. destruct r as [|r0 r]; [cbn; lra|].
    cbn [dot fst snd]. rewrite (IH y r Hlen). lra.
Qed.

Lemma nth_map_gen {A B} (f : A -> B) (d : A) (d' : B) j l : (j < length l)%nat -> nth j (map f l) d' = f (nth j l d).
Proof. intros H. rewrite (nth_indep _ d' (f d)) by (rewrite map_length; exact H). apply map_nth. Qed.

Theorem raw_decode_affine (invA : list (list Q)) (a : Q) (x y : list Q) : length x = length y ->
  forall j, nth j (raw_prevalence invA (map (fun p => a * fst p + (1 - a) * snd p) (combine x y))) 0
         == a * nth j (raw_prevalence invA x) 0 + (1 - a) * nth j (raw_prevalence invA y) 0.
Proof.
  intros Hlen j. unfold raw_prevalence.
  destruct (Nat.lt_ge_cases j (length invA)) as [H|H].
  - rewrite !(nth_map_gen _ [] 0 j invA H). apply dot_affine. exact Hlen.
  - rewrite !nth_overflow by (rewrite map_length; exact H). lra.
Qed.

(* ---------- mixtures of distributions are distributions (ensemble mean, soft routing) ---------- *)
Lemma qsum_vscale c a : qsum (vscale c a) == c * qsum a.
Proof. unfold vscale. induction a as [|x a IH]; cbn; [lra|]. rewrite IH. lra. Qed.

Lemma qsum_vsum : forall a b, length a = length b -> qsum (vsum a b) == qsum a + qsum b.
Proof.
  induction a as [|x a IH]; intros [|y b] H; try discriminate; cbn; [lra|]. cbn in H. injection H as H. rewrite (IH b H). lra.
Qed.

Lemma vsum_length : forall a b, length a = length b -> length (vsum a b) = length a.
Proof. induction a as [|x a IH]; intros [|y b] H; try discriminate; cbn; [reflexivity|]. cbn in H. injection H as H. rewrite (IH b H). reflexivity. Qed.

Lemma aggregate_length n : forall w rows, Forall (fun r => length r = n) rows -> length (aggregate w rows n) = n.
Proof.
  induction w as [|x w IH]; intros rows H; cbn; [apply repeat_length|]. destruct rows as [|r rows]; [apply repeat_length|].
  inversion H as [|? ? Hr Hrs]; subst. rewrite vsum_length; unfold vscale; rewrite map_length; [reflexivity|].
  rewrite IH by exact Hrs. reflexivity.
Qed.

Lemma qsum_repeat0 n : qsum (repeat 0 n) == 0.
Proof. induction n as [|n IH]; cbn; [lra|]. rewrite IH. lra. Qed.

(* a convex combination (weights >= 0 summing to one, e.g. ensemble mean or soft-routing weights) of rows that each sum to one
   sums to one *)
Theorem mixture_of_distributions_sums_to_one n : forall (w : list Q) (rows : list (list Q)),
  length w = length rows -> Forall (fun r => length r = n /\ qsum r == 1) rows ->
  qsum (aggregate w rows n) == qsum w.
Proof.
  induction w as [|x w IH]; intros [|r rows] Hlen H; try discriminate; cbn [aggregate qsum]; [apply qsum_repeat0|].
  inversion H as [|? ? [Hr1 Hr2] Hrs]; subst. cbn in Hlen. injection Hlen as Hlen.
  rewrite qsum_vsum, qsum_vscale, Hr2, (IH rows Hlen Hrs); [lra|].
  unfold vscale. rewrite map_length, aggregate_length; [reflexivity|].
  eapply Forall_impl; [|exact Hrs]. intros r' [A _]; exact A.
Qed.
