(* Proofs about Model/Select.v *)
From Coq Require Import List Bool Arith Lia.
Require Import XV.Model.Select.
Import ListNotations.

Section FitProofs.
  Variable S : Type.
  Variable init : S.
  Variable better stop : S -> S -> bool.

  (* `better` is a strict weak order on the scores, and every score beats the sentinel *)
  Hypothesis better_irr : forall a, better a a = false.
  Hypothesis better_trans : forall a b c, better a b = true -> better b c = true -> better a c = true.
  Hypothesis better_neg : forall a b c, better a c = true -> better a b = true \/ better b c = true.

  Notation acc := (acc S).
  Notation evaluate := (evaluate S better).
  Notation loop := (loop S better stop).
  Notation run := (run S init better stop).

  (* running best value over the evaluated scores *)
  Definition run_best (ev : list S) : S := fold_left (fun b s => if better s b then s else b) ev init.

  Lemma run_best_snoc ev s : run_best (ev ++ [s]) = if better s (run_best ev) then s else run_best ev.
  Proof. unfold run_best. rewrite fold_left_app. reflexivity. Qed.

  (* the statement's early-stopping rule: the first iterate whose score is worse than the best so far (itself included)
     by more than the multiplier; k iterations left, ev already evaluated *)
  Fixpoint first_stop (k : nat) (ev rest : list S) : option nat :=
    match k, rest with
    | Datatypes.S k', s :: rest' =>
        if stop s (run_best (ev ++ [s])) then Some (Datatypes.S (length ev)) else first_stop k' (ev ++ [s]) rest'
    | _, _ => None
    end.

  (* invariant tying the bookkeeping to the list of scores evaluated so far (return_best_params = True) *)
  Definition binv (ev : list S) (a : acc) : Prop :=
    a_evals S a = length ev /\ a_best S a = run_best ev /\
    match a_snap S a with
    | None => ev = []
    | Some w =>
        let j := w_iter w in
        (j < length ev) /\ a_best S a = nth j ev init /\ w_m w = j /\ w_bw w = j /\
        (forall k, k < length ev -> better (nth k ev init) (nth j ev init) = false) /\
        (forall k, k < j -> better (nth j ev init) (nth k ev init) = true)
    end.

  (* every score that occurs beats the sentinel (finite, non-NaN scores) *)
  Variable fin : S -> Prop.
  Hypothesis scored : forall s, fin s -> better s init = true.

  Lemma binv0 : binv [] (acc0 S init).
  Proof. unfold binv, acc0; cbn. auto. Qed.

  Lemma evaluate_binv ev a lbl s : fin s ->
    binv ev a -> a_m S a = length ev ->
    binv (ev ++ [s]) (evaluate true a (length ev) lbl s).
  Proof.
    intros Hfin (He & Hb & Hs) Hm. unfold binv, Select.evaluate. cbn [a_evals a_best a_snap andb].
    rewrite app_length, run_best_snoc, <- Hb. cbn [length]. split; [lia|].
    destruct (better s (a_best S a)) eqn:B.
    - split; [reflexivity|]. cbn [w_iter w_m w_bw]. rewrite nth_middle.
      split; [lia|]. split; [reflexivity|]. split; [exact Hm|]. split; [reflexivity|]. split.
      + intros k Hk. destruct (Nat.eq_dec k (length ev)) as [->|Hne]; [rewrite nth_middle; apply better_irr|].
        rewrite app_nth1 by lia.
        destruct (a_snap S a) as [w|]; [|subst ev; cbn in *; lia].
        destruct Hs as (Hj & Hbj & _ & _ & Hopt & _).
        destruct (better (nth k ev init) s) eqn:E; [|reflexivity].
        rewrite Hbj in B. pose proof (better_trans _ _ _ E B) as C.
        rewrite (Hopt k ltac:(lia)) in C. discriminate.
      + intros k Hk. rewrite app_nth1 by lia.
        destruct (a_snap S a) as [w|]; [|subst ev; cbn in *; lia].
        destruct Hs as (Hj & Hbj & _ & _ & Hopt & _).
        rewrite Hbj in B. destruct (better_neg _ (nth k ev init) _ B) as [C|C]; [exact C|].
        rewrite (Hopt k Hk) in C. discriminate.
    - split; [reflexivity|].
      destruct (a_snap S a) as [w|].
      + destruct Hs as (Hj & Hbj & Hwm & Hwb & Hopt & Hfirst). cbn zeta.
        rewrite !app_nth1 by lia. split; [lia|]. split; [exact Hbj|]. split; [exact Hwm|]. split; [exact Hwb|]. split.
        * intros k Hk. destruct (Nat.eq_dec k (length ev)) as [->|Hne].
          -- rewrite nth_middle, <- Hbj. exact B.
          -- rewrite app_nth1 by lia. apply Hopt. lia.
        * intros k Hk. rewrite app_nth1 by lia. apply Hfirst. exact Hk.
      + subst ev. rewrite Hb in B. unfold run_best in B. cbn in B. rewrite (scored s Hfin) in B. discriminate.
  Qed.

  Lemma advance_binv ev a d : binv ev a -> binv ev (advance_M S a d).
  Proof. unfold binv, advance_M. cbn. tauto. Qed.

  (* main loop: what was consumed, the invariant afterwards, and the stop rule *)
  Lemma loop_spec es : forall k rest ev a st rest' a',
    loop true es k (length ev) rest a = Some (st, rest', a') -> Forall fin rest ->
    binv ev a -> a_m S a = length ev ->
    exists ev', rest = ev' ++ rest' /\ binv (ev ++ ev') a' /\
      (st = false -> a_m S a' = length (ev ++ ev') /\ length ev' = k) /\
      (st = true -> a_m S a' = length (ev ++ ev') - 1) /\
      (if es then first_stop k ev rest = (if st then Some (length (ev ++ ev')) else None) else st = false).
  Proof.
    induction k as [|k IH]; intros rest ev a st rest' a' H Hfin Hinv Hm.
    - cbn in H. inversion H; subst. exists []. rewrite app_nil_r. cbn [app length].
      split; [reflexivity|]. split; [exact Hinv|]. split; [intros _; split; [exact Hm|reflexivity]|].
      split; [discriminate|]. destruct es; reflexivity.
    - cbn [Select.loop] in H. destruct rest as [|s rest]; [discriminate|].
      inversion Hfin as [|? ? Hfs Hfr]; subst.
      pose proof (evaluate_binv ev a (Some (length ev)) s Hfs Hinv Hm) as Hinv1.
      set (a1 := evaluate true a (length ev) (Some (length ev)) s) in *.
      assert (Hb1 : a_best S a1 = run_best (ev ++ [s])) by (destruct Hinv1 as (_ & Hb & _); exact Hb).
      assert (Hm1 : a_m S a1 = length ev) by (unfold a1, Select.evaluate; cbn; exact Hm).
      destruct (es && stop s (a_best S a1)) eqn:E.
      + inversion H; subst. apply andb_prop in E as [Ees Est]. subst es.
        exists [s]. split; [reflexivity|]. split; [exact Hinv1|]. rewrite app_length. cbn [length].
        split; [discriminate|]. split; [intros _; lia|].
        cbn [first_stop]. rewrite <- Hb1, Est. f_equal. lia.
      + replace (Datatypes.S (length ev)) with (length (ev ++ [s])) in H by (rewrite app_length; cbn; lia).
        destruct (IH rest (ev ++ [s]) (advance_M S a1 true) st rest' a' H Hfr) as (ev' & Hr & Hi & Hf & Ht & Hs).
        * apply advance_binv. exact Hinv1.
        * unfold advance_M. cbn. rewrite app_length. cbn. lia.
        * exists (s :: ev'). rewrite <- app_assoc in *. cbn [app] in *.
          split; [rewrite Hr; reflexivity|]. split; [exact Hi|].
          split; [intros Hst; destruct (Hf Hst) as [A B]; split; [exact A|cbn; lia]|].
          split; [exact Ht|].
          destruct es; [|exact Hs]. cbn [first_stop]. cbn [andb] in E. rewrite <- Hb1, E. exact Hs.
  Qed.

  (* ---- C03 main theorem (return_best_params = True) ---- *)
  Theorem run_returns_first_best iters lbl es scores w m bw bi e st : Forall fin scores ->
    run iters lbl true es scores = Out w m bw bi e st ->
    let ev := firstn e scores in
    let j := w_iter w in
    length ev = e /\ j < e /\
    (forall k, k < e -> better (nth k ev init) (nth j ev init) = false) /\      (* optimal among all evaluated *)
    (forall k, k < j -> better (nth j ev init) (nth k ev init) = true) /\       (* the first such iterate *)
    w_m w = j /\ w_bw w = j /\ m = j /\ bw = j /\                               (* all pieces from that one iterate *)
    (if es then e = match first_stop iters [] scores with Some n => n | None => Datatypes.S iters end
               /\ st = match first_stop iters [] scores with Some _ => true | None => false end
     else e = Datatypes.S iters /\ st = false).
  Proof.
    unfold Select.run. intros Hfin H.
    destruct (loop true es iters 0 scores (acc0 S init)) as [[[st0 rest] a]|] eqn:EL; [|discriminate].
    destruct (loop_spec es iters scores [] (acc0 S init) st0 rest a EL Hfin binv0 eq_refl) as (ev' & Hsc & Hinv & Hf & Ht & Hs).
    assert (Hfs : forall x r, rest = x :: r -> fin x).
    { intros x r E. subst rest scores. apply Forall_app in Hfin. destruct Hfin as [_ Hf2]. inversion Hf2; assumption. }
    cbn [app] in *.
    destruct st0.
    - (* stopped early *)
      cbv beta iota in H. destruct Hinv as (He & Hb & Hsn). destruct (a_snap S a) as [w0|] eqn:ES; [|discriminate].
      inversion H; subst. clear H. cbn zeta in *.
      assert (Hfn : firstn (a_evals S a) (ev' ++ rest) = ev').
      { rewrite He. rewrite firstn_app, Nat.sub_diag, firstn_all. cbn. apply app_nil_r. }
      rewrite Hfn. destruct Hsn as (Hj & _ & Hwm & Hwb & Hopt & Hfirst).
      split; [symmetry; exact He|]. split; [lia|]. split; [intros k Hk; apply Hopt; lia|]. split; [exact Hfirst|].
      split; [exact Hwm|]. split; [exact Hwb|]. split; [exact Hwm|]. split; [exact Hwb|].
      destruct es; [rewrite Hs; split; [exact He|reflexivity]|discriminate].
    - (* ran to the final refit *)
      destruct (Hf eq_refl) as [Hma Hlen].
      destruct rest as [|s rest]; [cbv beta iota in H; discriminate|].
      pose proof (evaluate_binv ev' a lbl s (Hfs _ _ eq_refl) Hinv Hma) as Hinv2.
      rewrite Hlen in Hinv2. cbv beta iota in H.
      set (a2 := evaluate true a iters lbl s) in *.
      destruct Hinv2 as (He & Hb & Hsn). destruct (a_snap S a2) as [w0|] eqn:ES; [|discriminate].
      inversion H; subst. clear H. cbn zeta in *.
      assert (Hfn : firstn (a_evals S a2) (ev' ++ s :: rest) = ev' ++ [s]).
      { rewrite He. replace (ev' ++ s :: rest) with ((ev' ++ [s]) ++ rest) by (rewrite <- app_assoc; reflexivity).
        rewrite firstn_app, Nat.sub_diag, firstn_all. cbn. apply app_nil_r. }
      change (a_evals S a2) with (Datatypes.S (a_evals S a)) in He, Hfn.
      rewrite Hfn. destruct Hsn as (Hj & _ & Hwm & Hwb & Hopt & Hfirst).
      rewrite app_length in *. cbn [length] in *.
      split; [symmetry; exact He|]. split; [lia|]. split; [intros k Hk; apply Hopt; lia|]. split; [exact Hfirst|].
      split; [exact Hwm|]. split; [exact Hwb|]. split; [exact Hwm|]. split; [exact Hwb|].
      destruct es; [rewrite Hs; split; [lia|reflexivity]|split; [lia|reflexivity]].
  Qed.

  Lemma first_stop_pos : forall k ev rest n, first_stop k ev rest = Some n -> length ev < n.
  Proof.
    induction k as [|k IH]; intros ev rest n H; [discriminate|]. cbn [first_stop] in H.
    destruct rest as [|s rest]; [discriminate|]. destruct (stop s (run_best (ev ++ [s]))).
    - inversion H. lia.
    - apply IH in H. rewrite app_length in H. cbn in H. lia.
  Qed.

  (* a finite history with enough scripted scores never crashes *)
  Theorem run_never_crashes iters lbl es scores : Forall fin scores ->
    iters < length scores -> run iters lbl true es scores <> Crash.
  Proof.
    intros Hfin Hlen. unfold Select.run.
    destruct (loop true es iters 0 scores (acc0 S init)) as [[[st0 rest] a]|] eqn:EL.
    - destruct (loop_spec es iters scores [] (acc0 S init) st0 rest a EL Hfin binv0 eq_refl) as (ev' & Hsc & Hinv & Hf & Ht & Hs).
      assert (Hfs : forall x r, rest = x :: r -> fin x).
      { intros x r E. subst rest scores. apply Forall_app in Hfin. destruct Hfin as [_ Hf2]. inversion Hf2; assumption. }
      cbn [app] in *. destruct st0.
      + cbv beta iota. destruct Hinv as (He & Hb & Hsn). destruct (a_snap S a) eqn:ES; [congruence|].
        subst ev'. destruct es; [|discriminate]. apply first_stop_pos in Hs. cbn in Hs. lia.
      + destruct (Hf eq_refl) as [Hma Hl]. destruct rest as [|s rest].
        * subst scores. rewrite app_nil_r in Hlen. lia.
        * cbv beta iota. pose proof (evaluate_binv ev' a lbl s (Hfs _ _ eq_refl) Hinv Hma) as (He & Hb & Hsn). rewrite Hl in Hsn.
          destruct (a_snap S (evaluate true a iters lbl s)) eqn:ES; [congruence|].
          destruct ev'; discriminate.
    - exfalso. clear -EL Hlen. revert EL Hlen. generalize (acc0 S init). generalize 0.
      revert scores. induction iters as [|k IH]; intros scores i a EL Hlen; cbn in EL; [discriminate|].
      destruct scores as [|s rest]; [cbn in Hlen; lia|].
      destruct (es && stop s _); [discriminate|]. eapply IH; [exact EL|cbn in Hlen; lia].
  Qed.
End FitProofs.

(* ---- C02: whatever the history and the switches, the stored coefficients were solved with the stored M and bandwidth ---- *)
Section Coherence.
  Variable S : Type.
  Variable init : S.
  Variable better stop : S -> S -> bool.
  Hypothesis stop_init : forall s, stop s init = false.      (* nothing is "worse than +-infinity by a factor" *)

  Definition coh (a : acc S) : Prop :=
    match a_w S a with Some w => w_m w = a_m S a /\ w_bw w = a_bw S a | None => True end.

  Lemma evaluate_coh rb a i lbl s : coh (evaluate S better rb a i lbl s).
  Proof. unfold coh, evaluate. cbn. auto. Qed.

  Lemma loop_false_spec es : forall k i scores a st rest a',
    loop S better stop false es k i scores a = Some (st, rest, a') ->
    a_best S a = init -> st = false /\ a_best S a' = init.
  Proof.
    induction k as [|k IH]; intros i scores a st rest a' H Hb.
    - cbn in H. inversion H; subst. auto.
    - cbn [loop] in H. destruct scores as [|s rest0]; [discriminate|].
      assert (Hb1 : a_best S (evaluate S better false a i (Some i) s) = init) by (unfold evaluate; cbn; exact Hb).
      rewrite Hb1, stop_init, andb_false_r in H.
      eapply IH; [exact H|]. unfold advance_M. cbn. exact Hb.
  Qed.

  Theorem run_state_coherent iters lbl rb es scores w m bw bi e st :
    run S init better stop iters lbl rb es scores = Out w m bw bi e st -> w_m w = m /\ w_bw w = bw.
  Proof.
    unfold run. intros H.
    destruct (loop S better stop rb es iters 0 scores (acc0 S init)) as [[[st0 rest] a]|] eqn:EL; [|discriminate].
    destruct rb.
    - destruct (if st0 then Some a else match rest with [] => None | s :: _ => Some (evaluate S better true a iters lbl s) end) as [a2|];
        [|discriminate]. destruct (a_snap S a2); [|discriminate]. inversion H; subst. auto.
    - destruct (loop_false_spec es iters 0 scores (acc0 S init) st0 rest a EL eq_refl) as [-> _].
      destruct rest as [|s rest]; [discriminate|].
      pose proof (evaluate_coh false a iters lbl s) as C. unfold coh in C.
      destruct (a_w S (evaluate S better false a iters lbl s)) as [w0|] eqn:EW; [|discriminate].
      inversion H; subst. exact C.
  Qed.
End Coherence.

(* ---------- temperature tuning ---------- *)
Section TuneProofs.
  Variable S : Type.
  Variable init : S.
  Variable better seqb : S -> S -> bool.
  Variable T : Type.
  Variable tle0 : T -> bool.
  Variable teqb : T -> T -> bool.
  Variable tzero : T.

  Hypothesis better_irr : forall a, better a a = false.
  Hypothesis better_trans : forall a b c, better a b = true -> better b c = true -> better a c = true.
  Hypothesis seqb_better : forall a b c, seqb a b = true -> better c b = false -> better c a = false.

  Notation tune := (tune S init better seqb T tle0 teqb tzero).
  Notation to_attr := (to_attr T tle0).

  Definition tinv (score : option T -> S) (done : list T) (a : tacc S T) : Prop :=
    t_results S T a = map (fun c => (c, score (to_attr c))) done /\
    (done = [] -> t_best S T a = init) /\
    (done <> [] ->
       exists c, In c done /\ t_attr S T a = to_attr c /\ t_best S T a = score (to_attr c) /\
                 forall c', In c' done -> better (score (to_attr c')) (t_best S T a) = false).

  Lemma tstep_inv iv score done a c : (forall x, better (score x) init = true) ->
    tinv score done a -> tinv score (done ++ [c]) (tstep S better seqb T tle0 teqb iv score a c).
  Proof.
    intros scored (Hr & H0 & Hn). unfold tinv, tstep. cbn [t_results t_best t_attr].
    split; [rewrite Hr, map_app; reflexivity|]. split; [intros E; destruct done; discriminate|]. intros _.
    set (s := score (to_attr c)).
    destruct done as [|d0 done'].
    - specialize (H0 eq_refl). rewrite H0. unfold s. rewrite (scored (to_attr c)). cbn [orb]. exists c. cbn.
      split; [auto|]. split; [reflexivity|]. split; [reflexivity|]. intros c' [<-|[]]. apply better_irr.
    - destruct (Hn ltac:(discriminate)) as (cb & Hin & Ha & Hb & Hopt).
      destruct (better s (t_best S T a) || (teqb c iv && seqb s (t_best S T a))) eqn:E.
      + exists c. split; [apply in_or_app; right; left; reflexivity|]. split; [reflexivity|]. split; [reflexivity|].
        intros c' Hc'. apply in_app_or in Hc'. destruct Hc' as [Hc'|[<-|[]]]; [|apply better_irr].
        apply orb_prop in E. destruct E as [E|E].
        * destruct (better (score (to_attr c')) s) eqn:B; [|reflexivity].
          pose proof (better_trans _ _ _ B E) as C. rewrite (Hopt c' Hc') in C. discriminate.
        * apply andb_prop in E as [_ E]. eapply seqb_better; [exact E|apply Hopt; exact Hc'].
      + exists cb. split; [apply in_or_app; left; exact Hin|]. split; [exact Ha|]. split; [exact Hb|].
        intros c' Hc'. apply in_app_or in Hc'. destruct Hc' as [Hc'|[<-|[]]]; [apply Hopt; exact Hc'|].
        apply orb_false_iff in E. destruct E as [E _]. exact E.
  Qed.

  Theorem tune_selects_best init_attr score cands : cands <> [] ->
    (forall x, better (score x) init = true) ->
    let r := tune init_attr score cands in
    t_results S T r = map (fun c => (c, score (to_attr c))) cands /\
    exists c, In c cands /\ t_attr S T r = to_attr c /\ t_best S T r = score (to_attr c) /\
              forall c', In c' cands -> better (score (to_attr c')) (t_best S T r) = false.
  Proof.
    intros Hne scored. cbn zeta. unfold Select.tune.
    set (iv := match init_attr with Some t => t | None => tzero end).
    assert (G : forall cs done a, tinv score done a ->
                tinv score (done ++ cs) (fold_left (tstep S better seqb T tle0 teqb iv score) cs a)).
    { induction cs as [|c cs IH]; intros done a Hi; cbn [fold_left]; [rewrite app_nil_r; exact Hi|].
      replace (done ++ c :: cs) with ((done ++ [c]) ++ cs) by (rewrite <- app_assoc; reflexivity).
      apply IH. apply tstep_inv; [exact scored|exact Hi]. }
    specialize (G cands [] {| t_best := init; t_attr := init_attr; t_results := [] |}).
    cbn [app] in G. destruct G as (Hr & _ & Hn).
    - unfold tinv. cbn. split; [reflexivity|]. split; [reflexivity|]. intros E; contradiction.
    - split; [exact Hr|]. apply Hn. exact Hne.
  Qed.
End TuneProofs.

(* ---------- the Q-with-sentinel instance satisfies every hypothesis (so the theorems are not vacuous) ---------- *)
From Coq Require Import QArith Lqa.
Section QInstance.
  Variable minimize : bool.
  Definition qfin (s : option Q) : Prop := s <> None.

  Lemma Qltb'_true a b : Qltb' a b = true <-> (a < b)%Q.
  Proof.
    unfold Qltb'. rewrite negb_true_iff. split.
    - intros H. apply Qnot_le_lt. intros Hle. apply Qle_bool_iff in Hle. congruence.
    - intros H. destruct (Qle_bool b a) eqn:E; [|reflexivity]. apply Qle_bool_iff in E. lra.
  Qed.
  Lemma Qltb'_false a b : Qltb' a b = false <-> (b <= a)%Q.
  Proof.
    unfold Qltb'. rewrite negb_false_iff. apply Qle_bool_iff.
  Qed.

  Lemma qb_irr a : q_better minimize a a = false.
  Proof. destruct a as [a|]; cbn; [|reflexivity]. destruct minimize; apply Qltb'_false; lra. Qed.

  Lemma qb_trans a b c : q_better minimize a b = true -> q_better minimize b c = true -> q_better minimize a c = true.
  Proof.
    destruct a as [a|], b as [b|], c as [c|]; cbn; try discriminate; try reflexivity.
    destruct minimize; rewrite !Qltb'_true; intros; lra.
  Qed.

  Lemma qb_neg a b c : q_better minimize a c = true -> q_better minimize a b = true \/ q_better minimize b c = true.
  Proof.
    destruct a as [a|], b as [b|], c as [c|]; cbn; try discriminate; auto.
    destruct minimize; rewrite !Qltb'_true; intros H.
    - destruct (Qlt_le_dec a b); [auto|right; lra].
    - destruct (Qlt_le_dec b a); [auto|right; lra].
  Qed.

  Lemma qb_scored s : qfin s -> q_better minimize s None = true.
  Proof. destruct s; [reflexivity|intros H; contradiction H; reflexivity]. Qed.

  Lemma qstop_init mult s : q_stop minimize mult s None = false.
  Proof. destruct s; reflexivity. Qed.

  Lemma qseqb_better a b c : q_seqb a b = true -> q_better minimize c b = false -> q_better minimize c a = false.
  Proof.
    destruct a as [a|], b as [b|], c as [c|]; cbn; try discriminate; auto.
    intros E. apply Qeq_bool_iff in E. destruct minimize; rewrite !Qltb'_false; intros; lra.
  Qed.
End QInstance.
