(* Proofs about Model/Tree.v: hard-routed prediction = row-wise formula of the leaf reached. *)
From Coq Require Import QArith List Bool ZArith Lia Permutation Sorting.Sorted.
Require Import XV.Model.Tree.
Import ListNotations.

Lemma filter_partition {A} (p : A -> bool) (l : list A) :
  Permutation l (filter p l ++ filter (fun x => negb (p x)) l).
Proof.
  induction l as [|a l IH]; cbn; [constructor|]. destruct (p a); cbn.
  - constructor. exact IH.
  - apply Permutation_cons_app. exact IH.
Qed.

Lemma concat_chunks_aux {A} : forall fuel bs (l : list A),
  (0 < bs)%nat -> (length l <= fuel)%nat -> concat (chunks_aux fuel bs l) = l.
Proof.
  induction fuel as [|f IH]; intros bs l Hbs Hl.
  - destruct l; [reflexivity|cbn in Hl; lia].
  - cbn [chunks_aux]. destruct l as [|a l']; [reflexivity|].
    cbn [concat]. rewrite IH; [apply firstn_skipn|exact Hbs|].
    rewrite skipn_length. cbn [length] in *. lia.
Qed.

Lemma concat_chunks {A} bs (l : list A) : (0 < bs)%nat -> concat (chunks bs l) = l.
Proof. intros H. unfold chunks. apply concat_chunks_aux; [exact H|lia]. Qed.

Section StackTraversal.
  Context {L : Type}.
  Fixpoint stack_size (st : list (tree L * list irow)) : nat :=
    match st with [] => O | (T, _) :: st' => (tsize T + stack_size st')%nat end.

  Lemma groups_loop_spec : forall fuel (st : list (tree L * list irow)) acc, (stack_size st < fuel)%nat ->
    groups_loop fuel st acc = Some (acc ++ concat (map (fun Tr => groups (fst Tr) (snd Tr)) st)).
  Proof.
    induction fuel as [|f IH]; intros st acc H; [lia|]. destruct st as [|[T rows] st]; cbn [groups_loop].
    - cbn. rewrite app_nil_r. reflexivity.
    - destruct T as [m|v b l r].
      + rewrite IH by (cbn in H; lia). cbn [map concat fst snd groups]. rewrite <- app_assoc. reflexivity.
      + cbn [map concat fst snd groups]. cbn [stack_size tsize] in H.
        repeat match goal with |- context [is_nil ?x] => let E := fresh "E" in destruct (is_nil x) eqn:E end;
          rewrite IH by (cbn [stack_size]; lia); cbn [map concat fst snd app]; rewrite <- ?app_assoc; reflexivity.
  Qed.

  (* the iterative traversal of the code computes the recursive left-first grouping, for every tree and batch *)
  Theorem groups_iter_spec (T : tree L) rows : groups_iter T rows = Some (groups T rows).
  Proof. unfold groups_iter. rewrite groups_loop_spec by (cbn; lia). cbn. rewrite app_nil_r. reflexivity. Qed.
End StackTraversal.

Section Spec.
  Context {L V : Type} (f : L -> list Q -> V).

  Definition val (T : tree L) (r : irow) : nat * V := (fst r, f (route T (snd r)) (snd r)).

  Lemma leaf_batched_spec m bs rows : (0 < bs)%nat ->
    leaf_batched V f m bs rows = map (fun r => (fst r, f m (snd r))) rows.
  Proof.
    intros H. unfold leaf_batched. rewrite <- concat_map, concat_chunks by exact H. reflexivity.
  Qed.

  Lemma groups_perm : forall (T : tree L) rows,
    Permutation (concat (map (fun g => map (fun r => (fst r, f (fst g) (snd r))) (snd g)) (groups T rows)))
                (map (val T) rows).
  Proof.
    induction T as [m|v b l IHl r IHr]; intros rows.
    - cbn. rewrite app_nil_r. reflexivity.
    - pose (pl := fun r0 : irow => goes_left (dot (snd r0) v) b).
      pose (lr := filter pl rows).
      pose (rr := filter (fun r0 => negb (pl r0)) rows).
      change (groups (Node v b l r) rows)
        with ((if is_nil lr then [] else groups l lr) ++ (if is_nil rr then [] else groups r rr)).
      assert (Hl : forall r0, In r0 lr -> pl r0 = true) by (intros r0 Hin; apply filter_In in Hin; tauto).
      assert (Hr : forall r0, In r0 rr -> pl r0 = false).
      { intros r0 Hin. apply filter_In in Hin. destruct Hin as [_ Hn]. apply negb_true_iff in Hn. exact Hn. }
      rewrite map_app, concat_app.
      apply Permutation_trans with (l' := map (val (Node v b l r)) (lr ++ rr));
        [|apply Permutation_map; apply Permutation_sym; apply (filter_partition pl rows)].
      rewrite map_app. apply Permutation_app.
      + replace (map (val (Node v b l r)) lr) with (map (val l) lr).
        * destruct lr as [|x lr']; [cbn; constructor|]. cbn [is_nil]. apply IHl.
        * apply map_ext_in. intros r0 Hin. unfold val. cbn [route]. unfold pl in Hl. rewrite (Hl r0 Hin). reflexivity.
      + replace (map (val (Node v b l r)) rr) with (map (val r) rr).
        * destruct rr as [|x rr']; [cbn; constructor|]. cbn [is_nil]. apply IHr.
        * apply map_ext_in. intros r0 Hin. unfold val. cbn [route]. unfold pl in Hr. rewrite (Hr r0 Hin). reflexivity.
  Qed.

  (* ---- sorting by the original index ---- *)
  Definition le_key (a b : nat * V) : Prop := (fst a <= fst b)%nat.
  Definition lt_key (a b : nat * V) : Prop := (fst a < fst b)%nat.

  Lemma insert_pair_perm p l : Permutation (insert_pair V p l) (p :: l).
  Proof.
    induction l as [|q t IH]; cbn; [reflexivity|]. destruct (Nat.leb (fst p) (fst q)); [reflexivity|].
    eapply Permutation_trans; [apply perm_skip; apply IH|apply perm_swap].
  Qed.

  Lemma sort_pairs_perm l : Permutation (sort_pairs V l) l.
  Proof.
    induction l as [|p t IH]; cbn; [constructor|].
    eapply Permutation_trans; [apply insert_pair_perm|]. constructor. exact IH.
  Qed.

  Lemma insert_pair_sorted p l : StronglySorted le_key l -> StronglySorted le_key (insert_pair V p l).
  Proof.
    induction l as [|q t IH]; intros S; cbn.
    - constructor; constructor.
    - inversion S as [|? ? S' F]; subst. destruct (Nat.leb (fst p) (fst q)) eqn:E.
      + apply Nat.leb_le in E. constructor; [exact S|]. constructor; [exact E|].
        eapply Forall_impl; [|exact F]. intros a Ha. unfold le_key in *. lia.
      + apply Nat.leb_gt in E. constructor; [apply IH; exact S'|].
        apply Forall_forall. intros a Hin.
        apply (Permutation_in _ (insert_pair_perm p t)) in Hin. destruct Hin as [<-|Hin].
        * unfold le_key. lia.
        * rewrite Forall_forall in F. apply F. exact Hin.
  Qed.

  Lemma sort_pairs_sorted l : StronglySorted le_key (sort_pairs V l).
  Proof. induction l as [|p t IH]; cbn; [constructor|apply insert_pair_sorted; exact IH]. Qed.

  Lemma sorted_perm_eq : forall l1 l2 : list (nat * V),
    StronglySorted le_key l1 -> StronglySorted lt_key l2 -> Permutation l1 l2 -> l1 = l2.
  Proof.
    induction l1 as [|a l1 IH]; intros l2 S1 S2 P.
    - apply Permutation_nil in P. symmetry. exact P.
    - destruct l2 as [|b l2]; [apply Permutation_sym, Permutation_nil in P; discriminate|].
      inversion S1 as [|? ? S1' F1]; inversion S2 as [|? ? S2' F2]; subst.
      assert (Hab : a = b).
      { assert (Ha : In a (b :: l2)) by (eapply Permutation_in; [exact P|left; reflexivity]).
        assert (Hb : In b (a :: l1)) by (eapply Permutation_in; [apply Permutation_sym; exact P|left; reflexivity]).
        destruct Ha as [Ha|Ha]; [symmetry; exact Ha|].
        destruct Hb as [Hb|Hb]; [exact Hb|].
        rewrite Forall_forall in F1, F2. specialize (F1 b Hb). specialize (F2 a Ha).
        unfold le_key, lt_key in *. lia. }
      subst b. f_equal. apply IH; [exact S1'|exact S2'|]. eapply Permutation_cons_inv. exact P.
  Qed.

  Lemma indexed_sorted (T : tree L) : forall X s,
    StronglySorted lt_key (map (val T) (combine (seq s (length X)) X)).
  Proof.
    induction X as [|x X IH]; intros s; cbn; [constructor|].
    constructor; [apply IH|]. apply Forall_forall. intros a Hin.
    apply in_map_iff in Hin. destruct Hin as [[i y] [<- Hin]]. apply in_combine_l in Hin. apply in_seq in Hin.
    unfold lt_key, val. cbn. lia.
  Qed.

  Lemma indexed_values (T : tree L) : forall X s,
    map snd (map (val T) (combine (seq s (length X)) X)) = map (fun x => f (route T x) x) X.
  Proof. induction X as [|x X IH]; intros s; cbn; [reflexivity|]. f_equal. apply IH. Qed.

  Theorem predict_tree_hard_spec (bs : nat) (T : tree L) (X : list (list Q)) : (0 < bs)%nat ->
    predict_tree_hard V f bs T X = map (fun x => f (route T x) x) X.
  Proof.
    intros Hbs. unfold predict_tree_hard, index_rows.
    set (rows := combine (seq 0 (length X)) X).
    replace (map (fun g => leaf_batched V f (fst g) bs (snd g)) (groups T rows))
      with (map (fun g => map (fun r => (fst r, f (fst g) (snd r))) (snd g)) (groups T rows))
      by (apply map_ext; intros g; symmetry; apply leaf_batched_spec; exact Hbs).
    rewrite (sorted_perm_eq _ (map (val T) rows)).
    - apply indexed_values.
    - apply sort_pairs_sorted.
    - apply indexed_sorted.
    - eapply Permutation_trans; [apply sort_pairs_perm|apply groups_perm].
  Qed.
End Spec.

(* ---- corollaries: the value for a row depends on that row only ---- *)
Section Corollaries.
  Context {L V : Type} (f : L -> list Q -> V).

  Corollary predict_tree_hard_batch_size bs1 bs2 T X : (0 < bs1)%nat -> (0 < bs2)%nat ->
    predict_tree_hard V f bs1 T X = predict_tree_hard V f bs2 T X.
  Proof. intros H1 H2. rewrite !predict_tree_hard_spec by assumption. reflexivity. Qed.

  Corollary predict_tree_hard_concat bs T X1 X2 : (0 < bs)%nat ->
    predict_tree_hard V f bs T (X1 ++ X2) = predict_tree_hard V f bs T X1 ++ predict_tree_hard V f bs T X2.
  Proof. intros H. rewrite !predict_tree_hard_spec by assumption. apply map_app. Qed.

  Corollary predict_tree_hard_row bs T X i : (0 < bs)%nat ->
    nth_error (predict_tree_hard V f bs T X) i = option_map (fun x => f (route T x) x) (nth_error X i).
  Proof. intros H. rewrite predict_tree_hard_spec by assumption. apply nth_error_map. Qed.

  (* any reordering of the batch reorders the output in the same way *)
  Corollary predict_tree_hard_perm bs T X X' : (0 < bs)%nat -> Permutation X X' ->
    Permutation (predict_tree_hard V f bs T X) (predict_tree_hard V f bs T X').
  Proof. intros H P. rewrite !predict_tree_hard_spec by assumption. apply Permutation_map. exact P. Qed.

  Corollary predict_tree_hard_reorder bs T X (pi : list nat) d : (0 < bs)%nat ->
    predict_tree_hard V f bs T (map (fun i => nth i X d) pi) =
    map (fun i => nth i (predict_tree_hard V f bs T X) (f (route T d) d)) pi.
  Proof.
    intros H. rewrite !predict_tree_hard_spec by assumption. rewrite map_map. apply map_ext. intros i.
    symmetry. apply (map_nth (fun x => f (route T x) x)).
  Qed.
End Corollaries.

Lemma map_nth_seq' {A} (d : A) (l : list A) : map (fun p => nth p l d) (seq 0 (length l)) = l.
Proof.
  induction l as [|x t IH]; cbn; [reflexivity|]. f_equal. rewrite <- seq_shift, map_map. exact IH.
Qed.

Theorem predict_hard_spec {L} (f : L -> list Q -> list Q) bs (Ts : list (tree L)) (X : list (list Q)) :
  (0 < bs)%nat ->
  predict_hard f bs Ts X = map (fun x => vmean (map (fun T => f (route T x) x) Ts)) X.
Proof.
  intros H. unfold predict_hard.
  replace (map (fun T => predict_tree_hard (list Q) f bs T X) Ts)
    with (map (fun T => map (fun x => f (route T x) x) X) Ts)
    by (apply map_ext; intros T; symmetry; apply predict_tree_hard_spec; exact H).
  transitivity (map (fun i => vmean (map (fun T => f (route T (nth i X [])) (nth i X [])) Ts)) (seq 0 (length X))).
  - apply map_ext_in. intros i Hi. apply in_seq in Hi. f_equal. rewrite map_map. apply map_ext. intros T.
    rewrite (nth_indep _ [] (f (route T []) [])) by (rewrite map_length; lia).
    apply (map_nth (fun x => f (route T x) x)).
  - rewrite <- (map_map (fun i => nth i X []) (fun x => vmean (map (fun T => f (route T x) x) Ts))).
    rewrite map_nth_seq'. reflexivity.
Qed.
