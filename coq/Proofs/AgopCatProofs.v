(* Proofs about Model/AgopCat.v : the categorical AGOP (Kernel.get_agop_categorical) is the dense AGOP restricted to the
   numerical block and to each categorical block, with zeros elsewhere (property C15, second sentence).
   Everything over Q / nat / lists: no axioms. *)
From Coq Require Import QArith List Bool Arith Lia Lqa Permutation.
Require Import XV.Model.Tree XV.Model.Soft XV.Model.Agop XV.Proofs.SoftProofs XV.Proofs.AgopProofs XV.Model.AgopCat.
Import ListNotations.
Local Open Scope Q_scope.

(* ------------------------------------------------------------------ single writes ------------------------------------------------------------------ *)
Lemma vset_length : forall r j v, length (vset r j v) = length r.
Proof. induction r as [|x r IH]; intros [|j] v; cbn; try reflexivity. rewrite IH. reflexivity. Qed.

Lemma nth_vset : forall r b v j, nth j (vset r b v) 0 = if (b =? j)%nat && (j <? length r)%nat then v else nth j r 0.
Proof.
  induction r as [|x r IH]; intros b v j.
  - cbn [vset length]. replace (j <? 0)%nat with false by (symmetry; apply Nat.ltb_ge; lia). rewrite andb_false_r. destruct b; reflexivity.
  - destruct b as [|b], j as [|j]; cbn [vset nth length]; try reflexivity.
    rewrite IH. change (S b =? S j)%nat with (b =? j)%nat. change (S j <? S (length r))%nat with (j <? length r)%nat. reflexivity.
Qed.

Lemma mset_length : forall M a b v, length (mset M a b v) = length M.
Proof. induction M as [|r M IH]; intros [|a] b v; cbn; try reflexivity. rewrite IH. reflexivity. Qed.

Lemma mset_row_length : forall M a b v k, length (nth k (mset M a b v) []) = length (nth k M []).
Proof.
  induction M as [|r M IH]; intros [|a] b v [|k]; cbn [mset nth]; try reflexivity.
  - apply vset_length.
  - apply IH.
Qed.

(* the entry written is the only one that changes, and only if the position is inside the matrix *)
Lemma ment_mset : forall M a b v i j,
  ment (mset M a b v) i j = if (a =? i)%nat && (b =? j)%nat && (i <? length M)%nat && (j <? length (nth i M []))%nat then v else ment M i j.
Proof.
  unfold ment. induction M as [|r M IH]; intros a b v i j.
  - cbn [length]. replace (i <? 0)%nat with false by (symmetry; apply Nat.ltb_ge; lia). rewrite andb_false_r. cbn [andb]. destruct a; reflexivity.
  - destruct a as [|a], i as [|i]; cbn [mset nth length].
    + rewrite nth_vset. change (0 =? 0)%nat with true. change (0 <? S (length M))%nat with true. cbn [andb]. rewrite andb_true_r. reflexivity.
    + reflexivity.
    + reflexivity.
    + rewrite IH. change (S a =? S i)%nat with (a =? i)%nat. change (S i <? S (length M))%nat with (i <? length M)%nat. reflexivity.
Qed.

Definition inside (M : mat) (i j : nat) : Prop := (i < length M)%nat /\ (j < length (nth i M []))%nat.

Lemma ment_mset_same M i j v : inside M i j -> ment (mset M i j v) i j = v.
Proof.
  intros [Hi Hj]. rewrite ment_mset, !Nat.eqb_refl. apply Nat.ltb_lt in Hi. apply Nat.ltb_lt in Hj. rewrite Hi, Hj. reflexivity.
Qed.
Lemma ment_mset_other M a b v i j : ~ (a = i /\ b = j) -> ment (mset M a b v) i j = ment M i j.
Proof.
  intros H. rewrite ment_mset. destruct (Nat.eqb_spec a i) as [E1|E1]; [|reflexivity]. destruct (Nat.eqb_spec b j) as [E2|E2]; [|reflexivity]. exfalso. apply H. split; assumption.
Qed.
Lemma ment_outside M i j : ~ inside M i j -> ment M i j = 0.
Proof.
  unfold inside, ment. intros H. destruct (Nat.lt_ge_cases i (length M)) as [Hi|Hi].
  - apply nth_overflow. lia.
  - rewrite (nth_overflow M) by exact Hi. destruct j; reflexivity.
Qed.
Lemma inside_mset M a b v i j : inside (mset M a b v) i j <-> inside M i j.
Proof. unfold inside. rewrite mset_length, mset_row_length. tauto. Qed.

(* ------------------------------------------------------------------ sequences of writes ------------------------------------------------------------------ *)
Lemma apply_writes_app M ws ws' : apply_writes M (ws ++ ws') = apply_writes (apply_writes M ws) ws'.
Proof. unfold apply_writes. apply fold_left_app. Qed.

Lemma apply_writes_cons M w ws : apply_writes M (w :: ws) = apply_writes (mset M (wrow w) (wcol w) (wval w)) ws.
Proof. reflexivity. Qed.
Lemma apply_writes_nil M : apply_writes M [] = M.
Proof. reflexivity. Qed.

Lemma inside_apply_writes : forall ws M i j, inside (apply_writes M ws) i j <-> inside M i j.
Proof. induction ws as [|w ws IH]; intros M i j; [rewrite apply_writes_nil; tauto|]. rewrite apply_writes_cons, IH. apply inside_mset. Qed.

Lemma apply_writes_length ws M : length (apply_writes M ws) = length M.
Proof. revert M. induction ws as [|w ws IH]; intros M; [reflexivity|]. rewrite apply_writes_cons, IH. apply mset_length. Qed.
Lemma apply_writes_row_length ws M k : length (nth k (apply_writes M ws) []) = length (nth k M []).
Proof. revert M. induction ws as [|w ws IH]; intros M; [reflexivity|]. rewrite apply_writes_cons, IH. apply mset_row_length. Qed.

(* no write at position (i, j): the entry is untouched *)
Lemma apply_writes_miss : forall ws M i j, (forall w, In w ws -> ~ (wrow w = i /\ wcol w = j)) -> ment (apply_writes M ws) i j = ment M i j.
Proof.
  induction ws as [|w ws IH]; intros M i j H; [reflexivity|]. rewrite apply_writes_cons, IH by (intros w' Hw'; apply H; right; exact Hw').
  apply ment_mset_other. apply H. left. reflexivity.
Qed.

(* all the writes at position (i, j) carry (a value == to) v and there is at least one (or the entry was v already): the entry ends up == v *)
Lemma apply_writes_hit : forall ws M i j v, inside M i j ->
  (forall w, In w ws -> wrow w = i -> wcol w = j -> wval w == v) ->
  (ment M i j == v \/ exists w, In w ws /\ wrow w = i /\ wcol w = j) -> ment (apply_writes M ws) i j == v.
Proof.
  induction ws as [|w ws IH]; intros M i j v Hin Hc Hex.
  - destruct Hex as [H|[w [[] _]]]. exact H.
  - rewrite apply_writes_cons. apply IH.
    + apply inside_mset. exact Hin.
    + intros w' Hw'. apply Hc. right. exact Hw'.
    + destruct (Nat.eq_dec (wrow w) i) as [E1|E1]; [destruct (Nat.eq_dec (wcol w) j) as [E2|E2]|].
      * left. rewrite E1, E2, ment_mset_same by exact Hin. apply Hc; [left; reflexivity|exact E1|exact E2].
      * rewrite ment_mset_other by tauto. destruct Hex as [H|[w' [[<-|Hw'] [R C]]]]; [left; exact H|contradiction|right; exists w'; tauto].
      * rewrite ment_mset_other by tauto. destruct Hex as [H|[w' [[<-|Hw'] [R C]]]]; [left; exact H|contradiction|right; exists w'; tauto].
Qed.

(* writes that agree wherever they collide *)
Definition consistent (ws : list write) : Prop :=
  forall w w', In w ws -> In w' ws -> wrow w = wrow w' -> wcol w = wcol w' -> wval w == wval w'.

Definition hitb (ws : list write) (i j : nat) : bool := existsb (fun w => (wrow w =? i)%nat && (wcol w =? j)%nat) ws.
Lemma hitb_true ws i j : hitb ws i j = true <-> exists w, In w ws /\ wrow w = i /\ wcol w = j.
Proof.
  unfold hitb. rewrite existsb_exists. split; intros [w [Hw H]]; exists w; split; try exact Hw.
  - apply andb_true_iff in H. destruct H as [H1 H2]. apply Nat.eqb_eq in H1. apply Nat.eqb_eq in H2. tauto.
  - destruct H as [-> ->]. rewrite !Nat.eqb_refl. reflexivity.
Qed.

Lemma consistent_write_wins ws M w : consistent ws -> In w ws -> inside M (wrow w) (wcol w) -> ment (apply_writes M ws) (wrow w) (wcol w) == wval w.
Proof.
  intros Hc Hw Hin. apply apply_writes_hit; [exact Hin| |right; exists w; tauto].
  intros w' Hw' R C. apply Hc; assumption.
Qed.

(* THE ORDER OF CONSISTENT WRITES DOES NOT MATTER: two write sequences with the same set of writes (in particular any permutation, with any repetitions)
   produce the same matrix, entry by entry, from any starting matrix *)
Theorem consistent_writes_order_irrelevant ws ws' M i j : consistent ws -> (forall w, In w ws <-> In w ws') ->
  ment (apply_writes M ws) i j == ment (apply_writes M ws') i j.
Proof.
  intros Hc Hs.
  assert (Hc' : consistent ws') by (intros w w' Hw Hw'; apply Hc; apply Hs; assumption).
  destruct (hitb ws i j) eqn:E.
  - apply hitb_true in E. destruct E as [w [Hw [<- <-]]].
    assert (D : inside M (wrow w) (wcol w) \/ ~ inside M (wrow w) (wcol w)) by (unfold inside; lia).
    destruct D as [D|D].
    + rewrite (consistent_write_wins ws M w Hc Hw D). symmetry. apply consistent_write_wins; [exact Hc'|apply Hs; exact Hw|exact D].
    + rewrite !ment_outside; [reflexivity| |]; rewrite inside_apply_writes; exact D.
  - assert (N : forall w, In w ws -> ~ (wrow w = i /\ wcol w = j)).
    { intros w Hw H. assert (T : hitb ws i j = true) by (apply hitb_true; exists w; tauto). congruence. }
    rewrite !apply_writes_miss; [reflexivity| |exact N]. intros w Hw. apply N, Hs, Hw.
Qed.

Corollary consistent_writes_permutation ws ws' M i j : consistent ws -> Permutation ws ws' -> ment (apply_writes M ws) i j == ment (apply_writes M ws') i j.
Proof.
  intros Hc Hp. apply consistent_writes_order_irrelevant; [exact Hc|]. intros w. split; intros H; [apply (Permutation_in _ Hp H)|apply (Permutation_in _ (Permutation_sym Hp) H)].
Qed.

(* ------------------------------------------------------------------ the zero matrix ------------------------------------------------------------------ *)
Lemma zeros_is_mzero d : zeros d = mzero d.
Proof. reflexivity. Qed.
Lemma zeros_shape d : shape d d (zeros d).
Proof. apply mzero_shape. Qed.
Lemma ment_zeros d i j : ment (zeros d) i j == 0.
Proof. apply ment_mzero. Qed.
Lemma inside_zeros d i j : inside (zeros d) i j <-> (i < d)%nat /\ (j < d)%nat.
Proof.
  unfold inside, zeros. rewrite repeat_length. split; intros [Hi Hj]; (split; [exact Hi|]).
  - rewrite (nth_indep _ [] (repeat 0 d)), nth_repeat, repeat_length in Hj by (rewrite repeat_length; exact Hi). exact Hj.
  - rewrite (nth_indep _ [] (repeat 0 d)), nth_repeat, repeat_length by (rewrite repeat_length; exact Hi). exact Hj.
Qed.

(* ------------------------------------------------------------------ membership ------------------------------------------------------------------ *)
Lemma mem_In i idx : mem i idx = true <-> In i idx.
Proof.
  unfold mem. rewrite existsb_exists. split.
  - intros [k [Hk E]]. apply Nat.eqb_eq in E. subst. exact Hk.
  - intros H. exists i. split; [exact H|apply Nat.eqb_refl].
Qed.
Lemma mem_nth i idx : mem i idx = true <-> exists a, (a < length idx)%nat /\ nth a idx O = i.
Proof.
  rewrite mem_In. split.
  - intros H. apply (In_nth _ _ O) in H. exact H.
  - intros [a [Ha <-]]. apply nth_In. exact Ha.
Qed.
Lemma covered_true blocks i j : covered blocks i j = true <-> exists idx, In idx blocks /\ In i idx /\ In j idx.
Proof.
  unfold covered. rewrite existsb_exists. split; intros [idx [Hb H]]; exists idx; (split; [exact Hb|]).
  - apply andb_true_iff in H. rewrite !mem_In in H. exact H.
  - apply andb_true_iff. rewrite !mem_In. exact H.
Qed.
Lemma covered_sym blocks i j : covered blocks i j = covered blocks j i.
Proof. unfold covered. induction blocks as [|idx bl IH]; cbn; [reflexivity|]. rewrite IH, (andb_comm (mem i idx)). reflexivity. Qed.

(* ------------------------------------------------------------------ the writes of a block ------------------------------------------------------------------ *)
Lemma nth_map_seq {A} (f : nat -> A) n a dflt : (a < n)%nat -> nth a (map f (seq 0 n)) dflt = f a.
Proof. intros Ha. rewrite (nth_indep _ dflt (f O)) by (rewrite map_length, seq_length; exact Ha). rewrite map_nth, seq_nth by exact Ha. reflexivity. Qed.

Lemma ment_block_gram idx G a b : (a < length idx)%nat -> (b < length idx)%nat -> ment (block_gram idx G) a b = entry (map (select_cols idx) G) a b.
Proof. intros Ha Hb. unfold ment, block_gram. cbv zeta. rewrite nth_map_seq by exact Ha. rewrite nth_map_seq by exact Hb. reflexivity. Qed.

Lemma block_gram_shape idx G : shape (length idx) (length idx) (block_gram idx G).
Proof.
  unfold shape, block_gram. cbv zeta. rewrite map_length, seq_length. split; [reflexivity|]. apply Forall_forall. intros r Hr. apply in_map_iff in Hr.
  destruct Hr as [a [<- _]]. rewrite map_length, seq_length. reflexivity.
Qed.

Lemma in_block_writes idx B w : In w (block_writes idx B) <->
  exists a b, (a < length idx)%nat /\ (b < length idx)%nat /\ w = (nth a idx O, nth b idx O, ment B a b).
Proof.
  unfold block_writes, positions. rewrite in_map_iff. split.
  - intros [[a b] [<- H]]. apply in_prod_iff in H. rewrite !in_seq in H. exists a, b. cbn [fst snd]. repeat split; lia.
  - intros [a [b [Ha [Hb ->]]]]. exists (a, b). split; [reflexivity|]. apply in_prod_iff. rewrite !in_seq. lia.
Qed.

(* every write of the block's Gram matrix carries the DENSE AGOP entry of the position it writes (block_entry) *)
Lemma block_writes_value idx G w : In w (block_writes idx (block_gram idx G)) -> wval w == entry G (wrow w) (wcol w).
Proof.
  intros H. apply in_block_writes in H. destruct H as [a [b [Ha [Hb ->]]]]. unfold wval, wrow, wcol. cbn [fst snd].
  rewrite ment_block_gram by assumption. apply block_entry; assumption.
Qed.
Lemma block_writes_position idx B i j : (exists w, In w (block_writes idx B) /\ wrow w = i /\ wcol w = j) <-> In i idx /\ In j idx.
Proof.
  split.
  - intros [w [Hw [<- <-]]]. apply in_block_writes in Hw. destruct Hw as [a [b [Ha [Hb ->]]]]. unfold wrow, wcol. cbn [fst snd]. split; apply nth_In; assumption.
  - intros [Hi Hj]. apply (In_nth _ _ O) in Hi. apply (In_nth _ _ O) in Hj. destruct Hi as [a [Ha <-]]. destruct Hj as [b [Hb <-]].
    exists (nth a idx O, nth b idx O, ment B a b). split; [|split; reflexivity]. apply in_block_writes. exists a, b. tauto.
Qed.

(* ------------------------------------------------------------------ the whole loop as one sequence of writes ------------------------------------------------------------------ *)
Definition all_writes (G : list vec) (blocks : list (list nat)) : list write := flat_map (fun idx => block_writes idx (block_gram idx G)) blocks.

Lemma cat_agop_from : forall G blocks M,
  fold_left (fun M' idx => scatter_block M' idx (block_gram idx G)) blocks M = apply_writes M (all_writes G blocks).
Proof.
  intros G. induction blocks as [|idx bl IH]; intros M; [reflexivity|]. cbn [fold_left all_writes flat_map]. rewrite IH. unfold scatter_block.
  fold (all_writes G bl). rewrite apply_writes_app. reflexivity.
Qed.
Lemma cat_agop_writes d G blocks : cat_agop d G blocks = apply_writes (zeros d) (all_writes G blocks).
Proof. apply cat_agop_from. Qed.

Lemma all_writes_value G blocks w : In w (all_writes G blocks) -> wval w == entry G (wrow w) (wcol w).
Proof. unfold all_writes. rewrite in_flat_map. intros [idx [_ H]]. apply block_writes_value in H. exact H. Qed.
Lemma all_writes_position G blocks i j : (exists w, In w (all_writes G blocks) /\ wrow w = i /\ wcol w = j) <-> covered blocks i j = true.
Proof.
  rewrite covered_true. unfold all_writes. split.
  - intros [w [Hw HP]]. apply in_flat_map in Hw. destruct Hw as [idx [Hb Hw]]. exists idx. split; [exact Hb|]. apply (block_writes_position idx (block_gram idx G)). exists w. tauto.
  - intros [idx [Hb HP]]. apply (block_writes_position idx (block_gram idx G)) in HP. destruct HP as [w [Hw HP]]. exists w. split; [|exact HP]. apply in_flat_map. exists idx. tauto.
Qed.
(* whatever block writes a position writes the same value there: the writes of ALL the blocks together are consistent, overlapping blocks and repeated indices included *)
Lemma all_writes_consistent G blocks : consistent (all_writes G blocks).
Proof. intros w w' Hw Hw' R C. rewrite (all_writes_value G blocks w Hw), (all_writes_value G blocks w' Hw'), R, C. reflexivity. Qed.
Lemma block_writes_consistent G idx : consistent (block_writes idx (block_gram idx G)).
Proof. intros w w' Hw Hw' R C. rewrite (block_writes_value idx G w Hw), (block_writes_value idx G w' Hw'), R, C. reflexivity. Qed.

Lemma cat_agop_shape d G blocks : shape d d (cat_agop d G blocks).
Proof.
  rewrite cat_agop_writes. unfold shape. rewrite apply_writes_length. destruct (zeros_shape d) as [L F]. split; [exact L|].
  apply Forall_forall. intros r Hr. apply (In_nth _ _ []) in Hr. destruct Hr as [k [Hk <-]]. rewrite apply_writes_row_length.
  rewrite apply_writes_length in Hk. rewrite Forall_forall in F. apply F. apply nth_In. exact Hk.
Qed.

(* ================================================================== 1. THE ENTRIES ================================================================== *)
(* The categorical AGOP entry (i, j) is the dense AGOP entry sum_r G[r][i] G[r][j] when some block contains both coordinates, and zero otherwise.
   NO hypothesis on the blocks is needed: not disjointness, not NoDup, not even that the indices are < d (in the model an out-of-range index is a
   no-op and never touches a position i, j < d; in the code it raises IndexError), and no well-formedness of G (entry reads missing columns as 0). *)
Theorem cat_agop_entry d G blocks i j : (i < d)%nat -> (j < d)%nat ->
  ment (cat_agop d G blocks) i j == (if existsb (fun idx => mem i idx && mem j idx) blocks then entry G i j else 0).
Proof.
  intros Hi Hj. fold (covered blocks i j). rewrite cat_agop_writes. destruct (covered blocks i j) eqn:E.
  - apply apply_writes_hit.
    + apply inside_zeros. tauto.
    + intros w Hw <- <-. apply (all_writes_value G blocks w Hw).
    + right. apply all_writes_position. exact E.
  - rewrite apply_writes_miss; [apply ment_zeros|]. intros w Hw H.
    assert (T : covered blocks i j = true) by (apply (all_writes_position G); exists w; tauto). congruence.
Qed.

(* the statement with the hypothesis of the task (every index of every block < d) is a special case *)
Corollary cat_agop_entry_bounded d G blocks i j : Forall (Forall (fun k => (k < d)%nat)) blocks -> (i < d)%nat -> (j < d)%nat ->
  ment (cat_agop d G blocks) i j == (if existsb (fun idx => mem i idx && mem j idx) blocks then entry G i j else 0).
Proof. intros _. apply cat_agop_entry. Qed.

(* outside the d x d matrix ment reads the default 0 *)
Lemma cat_agop_outside d G blocks i j : (d <= i)%nat \/ (d <= j)%nat -> ment (cat_agop d G blocks) i j = 0.
Proof.
  intros H. apply ment_outside. rewrite cat_agop_writes, inside_apply_writes, inside_zeros. lia.
Qed.
(* so i, j < d IS needed in cat_agop_entry: position (0, 2) of a 2 x 2 result reads 0 although block [0; 2] "covers" it and the dense entry is 3 *)
Example cat_agop_entry_needs_in_range :
  ment (cat_agop 2 [[1; 2; 3]] [[0; 2]%nat]) 0 2 == 0 /\ covered [[0; 2]%nat] 0 2 = true /\ entry [[1; 2; 3]] 0 2 == 3.
Proof. vm_compute. repeat split; reflexivity. Qed.

(* the order of the writes does not matter, neither inside a block nor across the blocks (any permutation / repetition of all the writes of the loop) *)
Theorem cat_agop_order_irrelevant d G blocks ws i j : (forall w, In w ws <-> In w (all_writes G blocks)) ->
  ment (apply_writes (zeros d) ws) i j == ment (cat_agop d G blocks) i j.
Proof.
  intros H. rewrite cat_agop_writes. symmetry. apply consistent_writes_order_irrelevant; [apply all_writes_consistent|]. intros w. symmetry. apply H.
Qed.
Corollary cat_agop_blocks_permutation d G blocks blocks' i j : Permutation blocks blocks' -> ment (cat_agop d G blocks) i j == ment (cat_agop d G blocks') i j.
Proof.
  intros Hp. rewrite (cat_agop_writes d G blocks). apply cat_agop_order_irrelevant. intros w. unfold all_writes. rewrite !in_flat_map.
  split; intros [idx [Hb Hw]]; exists idx; (split; [|exact Hw]); [apply (Permutation_in _ Hp Hb)|apply (Permutation_in _ (Permutation_sym Hp) Hb)].
Qed.
Theorem scatter_block_order_irrelevant M idx G ws i j : Permutation ws (block_writes idx (block_gram idx G)) ->
  ment (apply_writes M ws) i j == ment (scatter_block M idx (block_gram idx G)) i j.
Proof. intros Hp. unfold scatter_block. symmetry. apply consistent_writes_permutation; [apply block_writes_consistent|apply Permutation_sym, Hp]. Qed.
(* for an ARBITRARY right-hand side B the order of an index assignment with a repeated index does matter (last write wins): consistency is what saves the AGOP *)
Example scatter_order_matters_for_inconsistent_writes :
  let ws := block_writes [0; 0]%nat [[1; 2]; [3; 4]] in
  ment (apply_writes (zeros 1) ws) 0 0 == 4 /\ ment (apply_writes (zeros 1) (rev ws)) 0 0 == 1.
Proof. vm_compute. split; reflexivity. Qed.

(* the function with the code's argument convention: an EMPTY numerical index list is skipped, which changes nothing *)
Lemma code_blocks_covered num cat i j : covered (code_blocks num cat) i j = covered (num :: cat) i j.
Proof. destruct num; reflexivity. Qed.
Theorem get_agop_categorical_entry d G num cat i j : (i < d)%nat -> (j < d)%nat ->
  ment (get_agop_categorical d G num cat) i j == (if covered (num :: cat) i j then entry G i j else 0).
Proof. intros Hi Hj. unfold get_agop_categorical. rewrite cat_agop_entry by assumption. fold (covered (code_blocks num cat) i j). rewrite code_blocks_covered. reflexivity. Qed.

(* ================================================================== 2. COROLLARIES ================================================================== *)
(* symmetric (everywhere: outside the matrix both sides read 0) *)
Theorem cat_agop_symmetric d G blocks i j : ment (cat_agop d G blocks) i j == ment (cat_agop d G blocks) j i.
Proof.
  destruct (Nat.lt_ge_cases i d) as [Hi|Hi]; [destruct (Nat.lt_ge_cases j d) as [Hj|Hj]|].
  - rewrite !cat_agop_entry by assumption. fold (covered blocks i j). fold (covered blocks j i). rewrite (covered_sym blocks j i).
    destruct (covered blocks i j); [apply entry_symmetric|reflexivity].
  - rewrite !cat_agop_outside by lia. reflexivity.
  - rewrite !cat_agop_outside by lia. reflexivity.
Qed.

(* the diagonal of a covered coordinate is the dense diagonal sum_r G[r][i]^2; of an uncovered one it is 0 *)
Theorem cat_agop_diagonal d G blocks idx i : In idx blocks -> In i idx -> (i < d)%nat -> ment (cat_agop d G blocks) i i == entry G i i.
Proof.
  intros Hb Hi Hd. rewrite cat_agop_entry by assumption. fold (covered blocks i i).
  assert (E : covered blocks i i = true) by (apply covered_true; exists idx; tauto). rewrite E. reflexivity.
Qed.
Theorem cat_agop_diagonal_uncovered d G blocks i : (forall idx, In idx blocks -> ~ In i idx) -> ment (cat_agop d G blocks) i i == 0.
Proof.
  intros H. destruct (Nat.lt_ge_cases i d) as [Hd|Hd]; [|rewrite cat_agop_outside by lia; reflexivity].
  rewrite cat_agop_entry by assumption. fold (covered blocks i i). destruct (covered blocks i i) eqn:E; [|reflexivity].
  apply covered_true in E. destruct E as [idx [Hb [Hi _]]]. exfalso. exact (H idx Hb Hi).
Qed.

(* PARTITION: if the blocks partition the coordinates 0..d-1 (block number k holds exactly the coordinates with block id k), the categorical AGOP is
   the dense AGOP masked by "same block" *)
Theorem cat_agop_partition_mask d G blocks (bid : nat -> nat) :
  (forall k idx, nth_error blocks k = Some idx -> forall i, (i < d)%nat -> (In i idx <-> bid i = k)) ->
  (forall i, (i < d)%nat -> (bid i < length blocks)%nat) ->
  forall i j, (i < d)%nat -> (j < d)%nat ->
  ment (cat_agop d G blocks) i j == (if (bid i =? bid j)%nat then entry G i j else 0).
Proof.
  intros HP HB i j Hi Hj. rewrite cat_agop_entry by assumption. fold (covered blocks i j).
  assert (E : covered blocks i j = (bid i =? bid j)%nat).
  { apply eq_true_iff_eq. rewrite covered_true, Nat.eqb_eq. split.
    - intros [idx [Hb [Ii Ij]]]. apply In_nth_error in Hb. destruct Hb as [k Hk]. apply (HP k idx Hk i Hi) in Ii. apply (HP k idx Hk j Hj) in Ij. congruence.
    - intros Eb. destruct (nth_error blocks (bid i)) as [idx|] eqn:Hk.
      + exists idx. split; [eapply nth_error_In; exact Hk|]. split; [apply (HP _ idx Hk i Hi); reflexivity|apply (HP _ idx Hk j Hj); symmetry; exact Eb].
      + apply nth_error_None in Hk. specialize (HB i Hi). lia. }
  rewrite E. reflexivity.
Qed.
(* the dense AGOP itself, with the model's matrix on both sides *)
Corollary cat_agop_partition_mask_dense d G blocks (bid : nat -> nat) : wfv d G ->
  (forall k idx, nth_error blocks k = Some idx -> forall i, (i < d)%nat -> (In i idx <-> bid i = k)) ->
  (forall i, (i < d)%nat -> (bid i < length blocks)%nat) ->
  forall i j, (i < d)%nat -> (j < d)%nat ->
  ment (cat_agop d G blocks) i j == (if (bid i =? bid j)%nat then ment (gram d G) i j else 0).
Proof. intros W HP HB i j Hi Hj. rewrite (cat_agop_partition_mask d G blocks bid HP HB i j Hi Hj). destruct (bid i =? bid j)%nat; [symmetry; apply gram_entry; exact W|reflexivity]. Qed.

(* ================================================================== 3. ONE BLOCK = DENSE ================================================================== *)
Lemma ment_outside_shape n m M i j : shape n m M -> (n <= i)%nat \/ (m <= j)%nat -> ment M i j = 0.
Proof.
  intros [L F] H. apply ment_outside. unfold inside. intros [Hi Hj]. rewrite Forall_forall in F. rewrite (F (nth i M [])) in Hj by (apply nth_In; exact Hi). lia.
Qed.

Theorem cat_agop_is_dense_when_one_block d G i j : wfv d G -> ment (cat_agop d G [seq 0 d]) i j == ment (gram d G) i j.
Proof.
  intros W. destruct (Nat.lt_ge_cases i d) as [Hi|Hi]; [destruct (Nat.lt_ge_cases j d) as [Hj|Hj]|].
  - rewrite cat_agop_entry, (gram_entry d G i j W) by assumption. cbn [existsb].
    assert (Ei : mem i (seq 0 d) = true) by (apply mem_In, in_seq; lia). assert (Ej : mem j (seq 0 d) = true) by (apply mem_In, in_seq; lia).
    rewrite Ei, Ej. reflexivity.
  - rewrite cat_agop_outside by lia. rewrite (ment_outside_shape d d) by (try apply gram_shape; try exact W; lia). reflexivity.
  - rewrite cat_agop_outside by lia. rewrite (ment_outside_shape d d) by (try apply gram_shape; try exact W; lia). reflexivity.
Qed.
(* wfv (every gradient row has d columns) IS needed here, and only because of `gram` (madd truncates to the shortest row): with a short row the dense
   model loses entry (1, 1), the categorical model (which reads columns through nth with default 0) does not *)
Example dense_when_one_block_needs_wfv :
  ment (cat_agop 2 [[1]; [1; 1]] [seq 0 2]) 1 1 == 1 /\ ment (gram 2 [[1]; [1; 1]]) 1 1 == 0 /\ entry [[1]; [1; 1]] 1 1 == 1.
Proof. vm_compute. repeat split; reflexivity. Qed.

(* ================================================================== 2 (cont.) POSITIVE SEMI-DEFINITE FOR DISJOINT BLOCKS ================================================================== *)
Lemma ac_qsum_ext {A} (f g : A -> Q) (l : list A) : (forall a, In a l -> f a == g a) -> qsum (map f l) == qsum (map g l).
Proof.
  induction l as [|a l IH]; intros H; [reflexivity|]. cbn [map qsum]. rewrite (H a (or_introl eq_refl)), IH by (intros z Hz; apply H; right; exact Hz). reflexivity.
Qed.
Lemma ac_qsum_plus {A} (f g : A -> Q) (l : list A) : qsum (map (fun a => f a + g a) l) == qsum (map f l) + qsum (map g l).
Proof. induction l as [|a l IH]; cbn [map qsum]; [lra|]. rewrite IH. lra. Qed.
Lemma ac_qsum_perm l l' : Permutation l l' -> qsum l == qsum l'.
Proof. induction 1 as [|x l l' _ IH|x y l|l l' l'' _ IH1 _ IH2]; cbn [qsum]; [reflexivity|rewrite IH; reflexivity|lra|rewrite IH1; exact IH2]. Qed.
Lemma ac_qsum_filter (p : nat -> bool) (h : nat -> Q) (l : list nat) : qsum (map (fun i => if p i then h i else 0) l) == qsum (map h (filter p l)).
Proof. induction l as [|a l IH]; cbn [map qsum filter]; [reflexivity|]. destruct (p a); cbn [map qsum]; rewrite IH; lra. Qed.

(* a sum over the coordinates 0..d-1 masked by membership in a duplicate-free block = the sum over the block *)
Lemma ac_qsum_mask d idx (h : nat -> Q) : NoDup idx -> Forall (fun k => (k < d)%nat) idx ->
  qsum (map (fun i => if mem i idx then h i else 0) (seq 0 d)) == qsum (map h idx).
Proof.
  intros ND HB. rewrite ac_qsum_filter. apply ac_qsum_perm, Permutation_map. apply NoDup_Permutation; [apply NoDup_filter, seq_NoDup|exact ND|].
  intros k. rewrite filter_In, in_seq, mem_In. rewrite Forall_forall in HB. split; [tauto|]. intros H. specialize (HB k H). split; [lia|exact H].
Qed.

Definition quadform (d : nat) (x : nat -> Q) (M : mat) : Q := qsum (map (fun i => qsum (map (fun j => x i * x j * ment M i j) (seq 0 d))) (seq 0 d)).
Definition disjoint_blocks (blocks : list (list nat)) : Prop := ForallOrdPairs (fun a b => forall k, In k a -> ~ In k b) blocks.

(* double sum masked by one block *)
Lemma ac_block_double_sum d idx (f : nat -> nat -> Q) : NoDup idx -> Forall (fun k => (k < d)%nat) idx ->
  qsum (map (fun i => qsum (map (fun j => if mem i idx && mem j idx then f i j else 0) (seq 0 d))) (seq 0 d))
  == qsum (map (fun i => qsum (map (fun j => f i j) idx)) idx).
Proof.
  intros ND HB. rewrite <- (ac_qsum_mask d idx (fun i => qsum (map (fun j => f i j) idx)) ND HB). apply ac_qsum_ext. intros i _.
  destruct (mem i idx); cbn [andb]; [apply (ac_qsum_mask d idx (fun j => f i j) ND HB)|]. apply qsum_map_zero. intros; reflexivity.
Qed.

Lemma covered_cons idx bl i j : covered (idx :: bl) i j = (mem i idx && mem j idx) || covered bl i j.
Proof. reflexivity. Qed.

(* x^T (categorical AGOP) x  =  sum over the blocks of  sum_r ( sum_{i in block} x_i G[r][i] )^2   for pairwise disjoint, duplicate-free blocks *)
Theorem cat_agop_quadratic_form d G (x : nat -> Q) : forall blocks, disjoint_blocks blocks -> Forall (@NoDup nat) blocks -> Forall (Forall (fun k => (k < d)%nat)) blocks ->
  quadform d x (cat_agop d G blocks)
  == qsum (map (fun idx => qsum (map (fun g => let s := qsum (map (fun i => x i * nth i g 0) idx) in s * s) G)) blocks).
Proof.
  intros blocks HD HN HB.
  assert (E0 : quadform d x (cat_agop d G blocks)
               == qsum (map (fun i => qsum (map (fun j => if covered blocks i j then x i * x j * entry G i j else 0) (seq 0 d))) (seq 0 d))).
  { unfold quadform. apply ac_qsum_ext. intros i Hi. apply ac_qsum_ext. intros j Hj. apply in_seq in Hi. apply in_seq in Hj.
    rewrite cat_agop_entry by lia. fold (covered blocks i j). destruct (covered blocks i j); ring. }
  rewrite E0. clear E0. induction HD as [|idx bl Hd HD IH]; cbn [map qsum].
  - apply qsum_map_zero. intros i. apply qsum_map_zero. intros j. reflexivity.
  - pose proof (Forall_inv HN) as Nd. pose proof (Forall_inv_tail HN) as HN'. pose proof (Forall_inv HB) as Bd. pose proof (Forall_inv_tail HB) as HB'.
    rewrite <- (IH HN' HB'). rewrite <- (entry_quadratic_form G x idx).
    rewrite <- (ac_block_double_sum d idx (fun i j => x i * x j * entry G i j) Nd Bd).
    rewrite <- ac_qsum_plus. apply ac_qsum_ext. intros i _. rewrite <- ac_qsum_plus. apply ac_qsum_ext. intros j _.
    rewrite covered_cons. destruct (mem i idx && mem j idx) eqn:E1; destruct (covered bl i j) eqn:E2; cbn [orb]; try lra.
    exfalso. apply andb_true_iff in E1. destruct E1 as [E1 _]. apply mem_In in E1. apply covered_true in E2. destruct E2 as [idx' [Hb' [Hi' _]]].
    rewrite Forall_forall in Hd. exact (Hd idx' Hb' i E1 Hi').
Qed.

Theorem cat_agop_psd d G (x : nat -> Q) blocks : disjoint_blocks blocks -> Forall (@NoDup nat) blocks -> Forall (Forall (fun k => (k < d)%nat)) blocks ->
  0 <= quadform d x (cat_agop d G blocks).
Proof.
  intros HD HN HB. rewrite (cat_agop_quadratic_form d G x blocks HD HN HB). apply qsum_nonneg. apply Forall_forall. intros y Hy. apply in_map_iff in Hy.
  destruct Hy as [idx [<- _]]. apply qsum_nonneg. apply Forall_forall. intros z Hz. apply in_map_iff in Hz. destruct Hz as [g [<- _]].
  cbv zeta. generalize (qsum (map (fun i => x i * nth i g 0) idx)). intros s. nra.
Qed.
(* disjointness IS needed for positive semi-definiteness: with overlapping blocks [0;1] and [1;2] the result is the dense AGOP with the corners (0,2), (2,0)
   zeroed, which is not PSD:  x = (1, -1, 1) gives -1 *)
Example cat_agop_psd_needs_disjoint_blocks :
  quadform 3 (fun i => nth i [1; -1; 1] 0) (cat_agop 3 [[1; 1; 1]] [[0; 1]; [1; 2]]%nat) == -1.
Proof. vm_compute. reflexivity. Qed.

(* ================================================================== 4. EXAMPLES ================================================================== *)
Definition exG : list vec := [[1; 2; 3; 4; 5]; [7; 11; 13; 17; 19]; [-2; 6; -10; 14; -18]].
(* d = 5, numerical block [0; 3], categorical blocks [1; 4] and [2] *)
Eval vm_compute in map (map Qred) (get_agop_categorical 5 exG [0; 3]%nat [[1; 4]; [2]]%nat).
Eval vm_compute in map (map Qred) (gram 5 exG).
Example ex_cat_agop_value : map (map Qred) (get_agop_categorical 5 exG [0; 3]%nat [[1; 4]; [2]]%nat) =
  [[ 54;   0;   0;  95;   0];
   [  0; 161;   0;   0; 111];
   [  0;   0; 278;   0;   0];
   [ 95;   0;   0; 501;   0];
   [  0; 111;   0;   0; 710]].
Proof. vm_compute. reflexivity. Qed.
(* the zero pattern: an entry of the result is the dense entry if i, j are in the same block, and exactly 0 otherwise; the dense matrix has no zero entry *)
Definition same_block_ex (i j : nat) : bool := covered [[0; 3]; [1; 4]; [2]]%nat i j.
Example ex_cat_agop_zero_pattern :
  forallb (fun i => forallb (fun j => Qeq_bool (ment (get_agop_categorical 5 exG [0; 3]%nat [[1; 4]; [2]]%nat) i j)
                                        (if same_block_ex i j then ment (gram 5 exG) i j else 0)) (seq 0 5)) (seq 0 5) = true
  /\ forallb (fun i => forallb (fun j => negb (Qeq_bool (ment (gram 5 exG) i j) 0)) (seq 0 5)) (seq 0 5) = true.
Proof. vm_compute. split; reflexivity. Qed.
(* interleaved, non-ascending block [4; 1] (and [3; 0]): same matrix *)
Example ex_cat_agop_non_ascending :
  map (map Qred) (get_agop_categorical 5 exG [3; 0]%nat [[4; 1]; [2]]%nat) = map (map Qred) (get_agop_categorical 5 exG [0; 3]%nat [[1; 4]; [2]]%nat).
Proof. vm_compute. reflexivity. Qed.
(* empty numerical index list: the numerical block is skipped; coordinates 0 and 3 stay zero *)
Eval vm_compute in map (map Qred) (get_agop_categorical 5 exG [] [[4; 1]; [2]]%nat).
(* overlapping blocks and a repeated index are harmless: every write to a position carries the same dense value *)
Example ex_cat_agop_overlap_and_repeat :
  map (map Qred) (cat_agop 5 exG [[0; 3; 0]; [3; 0]; [1; 4]; [4; 1; 1]; [2]]%nat) = map (map Qred) (cat_agop 5 exG [[0; 3]; [1; 4]; [2]]%nat).
Proof. vm_compute. reflexivity. Qed.

Print Assumptions cat_agop_entry.
Print Assumptions get_agop_categorical_entry.
Print Assumptions cat_agop_order_irrelevant.
Print Assumptions scatter_block_order_irrelevant.
Print Assumptions cat_agop_symmetric.
Print Assumptions cat_agop_diagonal.
Print Assumptions cat_agop_partition_mask.
Print Assumptions cat_agop_partition_mask_dense.
Print Assumptions cat_agop_quadratic_form.
Print Assumptions cat_agop_psd.
Print Assumptions cat_agop_is_dense_when_one_block.
