(* Theorems about Model/TreeIter.v: what the tree-iteration loop returns, for every builder, score history and clock;
   what the loop over n_trees holds.  No axioms. *)
From Coq Require Import List Bool Arith Lia.
Require Import XV.Model.TreeIter.
Import ListNotations.

Section Proofs.
  Variables T Sc : Type.
  Variable better : Sc -> Sc -> bool.
  Variable rebuild : nat -> T -> T.
  Variable score : T -> Sc.
  Variable tl : nat -> bool.

  Notation ti_state := (ti_state T Sc).
  Notation ti_round := (ti_round T Sc better rebuild score).
  Notation ti_loop := (ti_loop T Sc better rebuild score tl).
  Notation ti_run := (ti_run T Sc better rebuild score).
  Notation ti_cut := (ti_cut tl).
  Notation iterates := (iterates T rebuild).
  Notation pick := (pick T Sc better score).
  Notation first_best := (first_best T Sc better score).
  Notation tree_iterations := (tree_iterations T Sc better rebuild score tl).

  (* ---------- a time limit is a cut iteration budget ---------- *)
  Lemma ti_loop_is_cut_run : forall k i st, ti_loop k i st = ti_run (ti_cut k i) i st.
  Proof.
    induction k as [|k IH]; intros i st; [reflexivity|].
    cbn [TreeIter.ti_loop TreeIter.ti_cut]. destruct (tl i); [reflexivity|].
    cbn [TreeIter.ti_run]. apply IH.
  Qed.

  Lemma ti_cut_le : forall k i, ti_cut k i <= k.
  Proof. induction k as [|k IH]; intros i; cbn [TreeIter.ti_cut]; [lia|]. destruct (tl i); [lia|]. specialize (IH (S i)). lia. Qed.

  Lemma ti_cut_no_clock : (forall i, tl i = false) -> forall k i, ti_cut k i = k.
  Proof. intros H. induction k as [|k IH]; intros i; cbn [TreeIter.ti_cut]; [reflexivity|]. rewrite H, IH. reflexivity. Qed.

  (* ---------- the state after k rounds ---------- *)
  Definition coherent (st : ti_state) : Prop := ti_best_score T Sc st = score (ti_best T Sc st).

  Lemma ti_round_best st i : coherent st ->
    ti_best T Sc (ti_round i st) = pick (ti_best T Sc st) (rebuild i (ti_prev T Sc st)) /\ coherent (ti_round i st).
  Proof.
    unfold coherent. intros H. unfold TreeIter.ti_round, TreeIter.pick. cbn. rewrite H.
    destruct (better (score (rebuild i (ti_prev T Sc st))) (score (ti_best T Sc st))); split; auto.
  Qed.

  Lemma ti_run_spec : forall k i st, coherent st ->
    let B := iterates k i (ti_prev T Sc st) in
    let r := ti_run k i st in
    ti_best T Sc r = first_best B (ti_best T Sc st) /\ coherent r /\
    ti_builds T Sc r = ti_builds T Sc st + k /\
    ti_scores T Sc r = ti_scores T Sc st ++ map score B /\
    ti_sources T Sc r = ti_sources T Sc st ++ firstn k (ti_prev T Sc st :: B) /\
    ti_prev T Sc r = last B (ti_prev T Sc st).
  Proof.
    induction k as [|k IH]; intros i st Hc.
    - cbn. rewrite !app_nil_r. repeat split; auto.
    - cbn [TreeIter.ti_run TreeIter.iterates].
      destruct (ti_round_best st i Hc) as [Hb Hc'].
      specialize (IH (S i) (ti_round i st) Hc'). cbv zeta in IH |- *.
      destruct IH as (I1 & I2 & I3 & I4 & I5 & I6).
      assert (Ep : ti_prev T Sc (ti_round i st) = rebuild i (ti_prev T Sc st)) by reflexivity.
      rewrite Ep in *. repeat split.
      + rewrite I1, Hb. reflexivity.
      + exact I2.
      + rewrite I3. cbn. lia.
      + rewrite I4. cbn. rewrite <- app_assoc. reflexivity.
      + rewrite I5. cbn [TreeIter.ti_round TreeIter.ti_sources firstn]. rewrite <- app_assoc. reflexivity.
      + rewrite I6. cbn [last]. destruct (iterates k (S i) (rebuild i (ti_prev T Sc st))) eqn:E; [reflexivity|].
        (* last of a non-empty list ignores the default *)
        clear. revert t. induction l as [|a l IHl]; intros t; [reflexivity|]. cbn [last] in *. apply IHl.
  Qed.

  (* ---------- first best of a list ---------- *)
  Lemma first_best_in : forall l t0, first_best l t0 = t0 \/ In (first_best l t0) l.
  Proof.
    induction l as [|c l IH]; intros t0; [left; reflexivity|].
    cbn [TreeIter.first_best fold_left]. fold (first_best l (pick t0 c)).
    destruct (IH (pick t0 c)) as [E|E].
    - rewrite E. unfold TreeIter.pick. destruct (better _ _); [right; left; reflexivity|left; reflexivity].
    - right; right; exact E.
  Qed.

  Lemma first_best_Forall (P : T -> Prop) l t0 : P t0 -> Forall P l -> P (first_best l t0).
  Proof.
    intros H0 Hl. destruct (first_best_in l t0) as [E|E]; [rewrite E; exact H0|].
    rewrite Forall_forall in Hl. apply Hl, E.
  Qed.

  Section Order.
    Hypothesis better_irr : forall a, better a a = false.
    Hypothesis better_trans : forall a b c, better a b = true -> better b c = true -> better a c = true.
    Hypothesis better_neg : forall a b c, better a c = true -> better a b = true \/ better b c = true.

    Lemma better_asym a b : better a b = true -> better b a = false.
    Proof. intros H. destruct (better b a) eqn:E; [|reflexivity]. pose proof (better_trans _ _ _ H E) as F. rewrite better_irr in F. discriminate. Qed.

    Theorem first_best_optimal : forall l t0 t, In t (t0 :: l) -> better (score t) (score (first_best l t0)) = false.
    Proof.
      induction l as [|c l IH]; intros t0 t Hin.
      - cbn in *. destruct Hin as [<-|[]]. apply better_irr.
      - cbn [TreeIter.first_best fold_left]. fold (first_best l (pick t0 c)).
        set (res := first_best l (pick t0 c)).
        assert (Hp : better (score (pick t0 c)) (score res) = false) by (apply IH; left; reflexivity).
        assert (Hl : forall x, In x l -> better (score x) (score res) = false) by (intros x Hx; apply IH; right; exact Hx).
        unfold TreeIter.pick in Hp. destruct (better (score c) (score t0)) eqn:Ecb.
        + (* c took over *)
          destruct Hin as [<-|[<-|Hin]]; [|exact Hp|apply Hl, Hin].
          destruct (better_neg _ (score res) _ Ecb) as [F|F]; [rewrite Hp in F; discriminate|apply better_asym, F].
        + destruct Hin as [<-|[<-|Hin]]; [exact Hp| |apply Hl, Hin].
          destruct (better (score c) (score res)) eqn:E; [|reflexivity].
          destruct (better_neg _ (score t0) _ E) as [F|F]; [rewrite Ecb in F; discriminate|rewrite Hp in F; discriminate].
    Qed.

    Theorem first_best_is_first : forall l t0, exists l1 l2,
      t0 :: l = l1 ++ first_best l t0 :: l2 /\ forall t, In t l1 -> better (score (first_best l t0)) (score t) = true.
    Proof.
      induction l as [|c l IH]; intros t0.
      - exists [], []. split; [reflexivity|intros t []].
      - cbn [TreeIter.first_best fold_left]. fold (first_best l (pick t0 c)).
        destruct (IH (pick t0 c)) as (m1 & m2 & Hd & Hb). set (res := first_best l (pick t0 c)) in *.
        unfold TreeIter.pick in Hd. destruct (better (score c) (score t0)) eqn:Ecb.
        + exists (t0 :: m1), m2. split; [rewrite Hd; reflexivity|].
          intros t [<-|Hin]; [|apply Hb, Hin].
          destruct m1 as [|a m1].
          * cbn in Hd. injection Hd as Hres _. rewrite <- Hres. exact Ecb.
          * cbn in Hd. injection Hd as Ha _. subst a. apply better_trans with (score c); [apply Hb; left; reflexivity|exact Ecb].
        + destruct m1 as [|a m1].
          * cbn in Hd. injection Hd as Hres Hl. exists [], (c :: l). split; [rewrite <- Hres; reflexivity|intros t []].
          * cbn in Hd. injection Hd as Ha Hl. subst a. exists (t0 :: c :: m1), m2. split; [rewrite Hl; reflexivity|].
            intros t [<-|[<-|Hin]]; [apply Hb; left; reflexivity| |apply Hb; right; exact Hin].
            assert (H0 : better (score res) (score t0) = true) by (apply Hb; left; reflexivity).
            destruct (better_neg _ (score c) _ H0) as [F|F]; [exact F|rewrite Ecb in F; discriminate].
    Qed.
  End Order.

  (* ---------- the whole function ---------- *)
  Theorem tree_iterations_spec n t0 :
    let c := ti_cut n 0 in
    let B := iterates c 0 t0 in
    let r := tree_iterations n t0 in
    ti_best T Sc r = first_best B t0 /\ ti_best_score T Sc r = score (ti_best T Sc r) /\
    ti_builds T Sc r = 1 + c /\ c <= n /\
    ti_scores T Sc r = map score (t0 :: B) /\
    ti_sources T Sc r = firstn c (t0 :: B).
  Proof.
    cbv zeta. unfold TreeIter.tree_iterations. rewrite ti_loop_is_cut_run.
    assert (Hc : coherent (ti_init T Sc score t0)) by reflexivity.
    destruct (ti_run_spec (ti_cut n 0) 0 _ Hc) as (I1 & I2 & I3 & I4 & I5 & _). cbv zeta in *. cbn in I1, I3, I4, I5.
    repeat split; auto. apply ti_cut_le.
  Qed.

  Corollary returned_tree_was_built n t0 :
    In (ti_best T Sc (tree_iterations n t0)) (t0 :: iterates (ti_cut n 0) 0 t0).
  Proof.
    destruct (tree_iterations_spec n t0) as (E & _). cbv zeta in E. rewrite E.
    destruct (first_best_in (iterates (ti_cut n 0) 0 t0) t0) as [F|F]; [left; symmetry; exact F|right; exact F].
  Qed.

  Corollary returned_tree_inherits (P : T -> Prop) n t0 :
    P t0 -> (forall i prev, P (rebuild i prev)) -> P (ti_best T Sc (tree_iterations n t0)).
  Proof.
    intros H0 Hr. destruct (tree_iterations_spec n t0) as (E & _). cbv zeta in E. rewrite E.
    apply first_best_Forall; [exact H0|].
    generalize (ti_cut n 0) as k. generalize 0 as i. generalize t0 as prev. clear - Hr.
    intros prev i k. revert i prev. induction k as [|k IH]; intros i prev; cbn; constructor; [apply Hr|apply IH].
  Qed.

  Corollary builds_bounded n t0 : ti_builds T Sc (tree_iterations n t0) <= 1 + n.
  Proof. destruct (tree_iterations_spec n t0) as (_ & _ & E & L & _). cbv zeta in *. lia. Qed.
End Proofs.

(* ---------- the loop over n_trees ---------- *)
Section Forest.
  Variable T : Type.
  Variable is_leaf : T -> bool.
  Variable build_tree : nat -> T.
  Variable ftl : nat -> bool.
  Notation forest_loop := (forest_loop T is_leaf build_tree ftl).
  Notation forest := (forest T is_leaf build_tree ftl).
  Definition nonleaf (t : T) : bool := negb (is_leaf t).

  Lemma forest_loop_spec : forall k i acc hs, exists m,
    m <= k /\
    fst (forest_loop k i acc hs) = acc ++ map build_tree (seq i m) /\
    snd (forest_loop k i acc hs) = hs || existsb nonleaf (map build_tree (seq i m)) /\
    (forall j, S j < m -> is_leaf (build_tree (i + j)) = false) /\
    (i = 0 -> 0 < k -> 0 < m) /\
    (m < k -> (0 < m /\ is_leaf (build_tree (i + (m - 1))) = true) \/ (0 < i + m /\ ftl (i + m) = true)).
  Proof.
    induction k as [|k IH]; intros i acc hs.
    - exists 0. cbn. rewrite app_nil_r, orb_false_r. repeat split; auto; lia.
    - cbn [TreeIter.forest_loop]. destruct (Nat.ltb 0 i && ftl i) eqn:Et.
      + exists 0. cbn. rewrite app_nil_r, orb_false_r. apply andb_prop in Et as [Ei Ef]. apply Nat.ltb_lt in Ei.
        repeat split; auto; try lia. intros _. right. rewrite Nat.add_0_r. split; [lia|exact Ef].
      + destruct (is_leaf (build_tree i)) eqn:El.
        * exists 1. cbn. unfold nonleaf. rewrite El. cbn. rewrite orb_false_r. repeat split; auto; try lia.
          intros _. left. rewrite Nat.add_0_r. split; [lia|exact El].
        * destruct (IH (S i) (acc ++ [build_tree i]) true) as (m & Hm & Hf & Hs & Hn & _ & Hstop).
          exists (S m). cbn [seq map]. rewrite Hf, Hs, <- app_assoc. cbn [app existsb]. unfold nonleaf at 2. rewrite El. cbn [negb orb].
          rewrite orb_true_r. repeat split; auto; try lia.
          -- intros j Hj. destruct j as [|j]; [rewrite Nat.add_0_r; exact El|]. replace (i + S j) with (S i + j) by lia. apply Hn. lia.
          -- intros Hlt. assert (Hlt' : m < k) by lia. destruct (Hstop Hlt') as [[Hp Hl]|[Hp Hl]].
             ++ left. split; [lia|]. replace (i + (S m - 1)) with (S i + (m - 1)) by lia. exact Hl.
             ++ right. replace (i + S m) with (S i + m) by lia. split; [lia|exact Hl].
  Qed.

  Theorem forest_spec n : exists m,
    m <= n /\ fst (forest n) = map build_tree (seq 0 m) /\
    snd (forest n) = existsb nonleaf (fst (forest n)) /\
    (forall j, S j < m -> is_leaf (build_tree j) = false) /\
    (0 < n -> 0 < m) /\
    (m < n -> (0 < m /\ is_leaf (build_tree (m - 1)) = true) \/ (0 < m /\ ftl m = true)).
  Proof.
    unfold TreeIter.forest. destruct (forest_loop_spec n 0 [] false) as (m & H1 & H2 & H3 & H4 & H5 & H6).
    exists m. cbn [app orb] in *. rewrite H2. repeat split; auto.
  Qed.

  (* has_split (the gate of temperature tuning) is false exactly when the model holds nothing but a single-leaf tree *)
  Corollary no_split_means_single_leaf n : 0 < n -> snd (forest n) = false ->
    fst (forest n) = [build_tree 0] /\ is_leaf (build_tree 0) = true.
  Proof.
    intros Hn Hs. destruct (forest_spec n) as (m & H1 & H2 & H3 & H4 & H5 & _).
    specialize (H5 Hn). rewrite Hs in H3. rewrite H2 in H3 |- *.
    destruct m as [|m]; [lia|]. cbn [seq map existsb] in H3. symmetry in H3. apply orb_false_elim in H3 as [Hl _].
    unfold nonleaf in Hl. apply negb_false_iff in Hl. split; [|exact Hl].
    destruct m as [|m]; [reflexivity|]. rewrite H4 in Hl by lia. discriminate.
  Qed.

  Corollary forest_size n : length (fst (forest n)) <= n.
  Proof. destruct (forest_spec n) as (m & H1 & H2 & _). rewrite H2, map_length, seq_length. exact H1. Qed.
End Forest.
